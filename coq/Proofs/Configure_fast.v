(** Proofs for C02: the single pass of [configure] over the output of [interpret]
    rebuilds the tree.  Part 1 (used by C05 as well): [interpret] without
    accumulators, i.e. [interp_node] returns exactly [Spec.WfLayout.entries]. *)
From PM Require Import Spec.WfLayout Proofs.Model_lemmas.
From Coq Require Import Lia.

(* ------------------------------------------------------------------ *)
(** * Part 1: interpret, without accumulators *)

Fixpoint interp_bs (m : model) (vars : list atom) (var : atom) (bs : list branch)
  (hc : bool) (ts : list triple) (es : list epientry)
  : outcome (bool * list triple * list epientry) :=
  match bs with
  | [] => Ok (hc, ts, es)
  | (role, tgt) :: bs' =>
      '(role', repis) <- process_role role ;;
      let hc' := hc || str_eqb role' INSTANCE in
      match tgt with
      | TAtom a =>
          '(a', tepis) <- process_atomic a ;;
          let tr0 : triple := (var, role', a') in
          let tr := if is_role_inverted m role' && mem atom_eqb a' vars
                    then deinvert m tr0 else tr0 in
          interp_bs m vars var bs' hc' (ts ++ [tr]) (es ++ [(tr, repis ++ tepis)])
      | TNode n' =>
          let v' := node_var n' in
          let tr := deinvert m (var, role', v') in
          '(ts2, es2) <- interp_node m vars n' ;;
          interp_bs m vars var bs' hc' (ts ++ tr :: ts2)
             (es ++ (tr, repis ++ [Push v']) :: add_pop_last es2)
      end
  end.

Lemma interp_node_eq : forall m vars var bs,
  interp_node m vars (Node var bs) =
  ('(hc, ts, es) <- interp_bs m vars var bs false [] [] ;;
   if hc then Ok (ts, es)
   else let inst : triple := (var, INSTANCE, ANone) in Ok (inst :: ts, (inst, []) :: es)).
Proof.
  intros m vars var bs. simpl.
  match goal with
  | |- bind (?g bs false [] []) _ = _ =>
      assert (E : forall l hc ts es, g l hc ts es = interp_bs m vars var l hc ts es)
  end.
  { induction l as [|[role tgt] l IH]; intros hc ts es; [reflexivity|].
    simpl. destruct (process_role role) as [[role' repis]| | | | | | | |]; try reflexivity.
    simpl. destruct tgt as [a|n'].
    - destruct (process_atomic a) as [[a' tepis]| | | | | | | |]; try reflexivity.
      simpl. apply IH.
    - destruct (interp_node m vars n') as [[ts2 es2]| | | | | | | |]; try reflexivity.
      simpl. apply IH. }
  rewrite E. reflexivity.
Qed.

Definition is_ok {A} (o : outcome A) : bool := match o with Ok _ => true | _ => false end.

(* every _process_role / _process_atomic call of the node succeeds *)
Fixpoint node_ok (n : node) : bool :=
  match n with
  | Node _ bs =>
      (fix go (bs : list branch) : bool :=
         match bs with
         | [] => true
         | (role, tgt) :: bs' =>
             is_ok (process_role role)
             && match tgt with TAtom a => is_ok (process_atomic a) | TNode n' => node_ok n' end
             && go bs'
         end) bs
  end.
Definition target_ok (t : target) : bool :=
  match t with TAtom a => is_ok (process_atomic a) | TNode n' => node_ok n' end.
Definition branch_okb (b : branch) : bool := is_ok (process_role (fst b)) && target_ok (snd b).
Lemma node_ok_eq : forall v bs, node_ok (Node v bs) = forallb branch_okb bs.
Proof.
  intros v bs. simpl. induction bs as [|[role tgt] bs IH]; [reflexivity|].
  rewrite IH. reflexivity.
Qed.

(* the entries of one branch *)
Definition branch_entries (m : model) (vars : list atom) (var : atom) (b : branch) : list epientry :=
  match snd b with
  | TAtom a =>
      [(atom_triple m vars var (role_name (fst b)) (atom_name a),
        snd (proc_role (fst b)) ++ snd (proc_atom a))]
  | TNode n' =>
      (deinvert m (var, role_name (fst b), node_var n'),
       snd (proc_role (fst b)) ++ [Push (node_var n')])
        :: add_pop_last (entries m vars n')
  end.
Definition entries_bs (m : model) (vars : list atom) (var : atom) (bs : list branch) : list epientry :=
  flat_map (branch_entries m vars var) bs.

Lemma entries_eq : forall m vars var bs,
  entries m vars (Node var bs) =
  if has_concept bs then entries_bs m vars var bs
  else ((var, INSTANCE, ANone), []) :: entries_bs m vars var bs.
Proof.
  intros m vars var bs. simpl.
  match goal with
  | |- (if _ then ?g bs else _) = _ => assert (E : forall l, g l = entries_bs m vars var l)
  end.
  { induction l as [|[role [a|n']] l IH]; [reflexivity| |]; simpl; rewrite IH; reflexivity. }
  rewrite E. reflexivity.
Qed.

Lemma entries_bs_atom : forall m vars var role a bs,
  entries_bs m vars var ((role, TAtom a) :: bs) =
  (atom_triple m vars var (role_name role) (atom_name a),
   snd (proc_role role) ++ snd (proc_atom a)) :: entries_bs m vars var bs.
Proof. reflexivity. Qed.
Lemma entries_bs_node : forall m vars var role n' bs,
  entries_bs m vars var ((role, TNode n') :: bs) =
  (deinvert m (var, role_name role, node_var n'), snd (proc_role role) ++ [Push (node_var n')])
    :: add_pop_last (entries m vars n') ++ entries_bs m vars var bs.
Proof. reflexivity. Qed.

Lemma map_fst_add_pop_last : forall es, map fst (add_pop_last es) = map fst es.
Proof.
  induction es as [|[t l] es IH]; [reflexivity|].
  destruct es as [|e es]; [reflexivity|].
  change (add_pop_last ((t, l) :: e :: es)) with ((t, l) :: add_pop_last (e :: es)).
  change (map fst ((t, l) :: add_pop_last (e :: es))) with (t :: map fst (add_pop_last (e :: es))).
  rewrite IH. reflexivity.
Qed.

Lemma has_concept_cons : forall b bs,
  has_concept (b :: bs) = str_eqb (role_name (fst b)) INSTANCE || has_concept bs.
Proof. reflexivity. Qed.

Definition interp_spec (m : model) (vars : list atom) (n : node) : Prop :=
  (node_ok n = true ->
   interp_node m vars n = Ok (map fst (entries m vars n), entries m vars n)) /\
  (node_ok n = false -> forall x, interp_node m vars n <> Ok x).

Lemma interp_bs_spec : forall m vars var bs,
  Forall (branch_ok (interp_spec m vars)) bs ->
  forall hc ts es,
  (forallb branch_okb bs = true ->
   interp_bs m vars var bs hc ts es =
   Ok (hc || has_concept bs, ts ++ map fst (entries_bs m vars var bs),
       es ++ entries_bs m vars var bs)) /\
  (forallb branch_okb bs = false -> forall x, interp_bs m vars var bs hc ts es <> Ok x).
Proof.
  intros m vars var bs F. induction F as [|[role tgt] bs Hb F IH]; intros hc ts es.
  - split; [intros _|discriminate]. simpl. rewrite orb_false_r, !app_nil_r. reflexivity.
  - simpl forallb. unfold branch_okb at 1 3. simpl fst. simpl snd.
    simpl interp_bs.
    destruct (process_role role) as [[role' repis]| | | | | | | |] eqn:PR;
      try (split; [discriminate | intros _ x; simpl; discriminate]).
    assert (RN : role_name role = role') by (unfold role_name, proc_role; rewrite PR; reflexivity).
    assert (RE : snd (proc_role role) = repis) by (unfold proc_role; rewrite PR; reflexivity).
    simpl is_ok. simpl bind. rewrite andb_true_l.
    destruct tgt as [a|n'].
    + simpl target_ok.
      destruct (process_atomic a) as [[a' tepis]| | | | | | | |] eqn:PA;
        try (split; [discriminate | intros _ x; simpl; discriminate]).
      assert (AN : atom_name a = a') by (unfold atom_name, proc_atom; rewrite PA; reflexivity).
      assert (AE : snd (proc_atom a) = tepis) by (unfold proc_atom; rewrite PA; reflexivity).
      simpl is_ok. simpl bind. rewrite andb_true_l.
      match goal with |- context [interp_bs m vars var bs ?h ?t ?e] =>
        destruct (IH h t e) as [IH1 IH2] end.
      split.
      * intros OK. rewrite (IH1 OK). rewrite entries_bs_atom.
        rewrite has_concept_cons. simpl fst. rewrite RN, RE, AN, AE.
        unfold atom_triple. simpl map. rewrite <- !app_assoc, orb_assoc. reflexivity.
      * intros BAD. apply IH2. exact BAD.
    + simpl target_ok. unfold branch_ok in Hb. simpl in Hb. destruct Hb as [H1 H2].
      destruct (node_ok n') eqn:NO.
      * rewrite (H1 eq_refl). simpl bind. rewrite andb_true_l.
        match goal with |- context [interp_bs m vars var bs ?h ?t ?e] =>
          destruct (IH h t e) as [IH1 IH2] end.
        split.
        -- intros OK. rewrite (IH1 OK). rewrite entries_bs_node.
           rewrite has_concept_cons. simpl fst. rewrite RN, RE.
           change (map fst (?x :: ?l)) with (fst x :: map fst l).
           rewrite map_app, map_fst_add_pop_last. simpl fst.
           rewrite <- !app_assoc, orb_assoc. reflexivity.
        -- intros BAD. apply IH2. exact BAD.
      * split; [discriminate|]. intros _ x.
        destruct (interp_node m vars n') as [[ts2 es2]| | | | | | | |] eqn:IN; simpl; try discriminate.
        exfalso. exact (H2 eq_refl _ eq_refl).
Qed.

Theorem interp_node_spec : forall m vars n, interp_spec m vars n.
Proof.
  intros m vars n. induction n as [v bs IHbs] using node_ind'.
  unfold interp_spec. rewrite node_ok_eq, interp_node_eq, entries_eq.
  destruct (interp_bs_spec m vars v bs IHbs false [] []) as [H1 H2]. split.
  - intros OK. rewrite (H1 OK). simpl bind. simpl orb.
    destruct (has_concept bs); reflexivity.
  - intros BAD x. specialize (H2 BAD).
    destruct (interp_bs m vars v bs false [] []) as [[[hc ts] es]| | | | | | | |]; simpl; try discriminate.
    exfalso. exact (H2 _ eq_refl).
Qed.

(* ------------------------------------------------------------------ *)
(** * Part 2: well-formedness, unfolded *)

Definition wf_branch (m : model) (vars : list atom) (var : atom) (first : bool) (b : branch) : bool :=
  let '(role, tgt) := b in
  if str_eqb role SLASHS then
    first && match tgt with
             | TAtom a => atom_text_ok a && concept_ok a
             | TNode _ => false
             end
  else
    role_text_ok role &&
    let r := role_name role in
    let deinv := deinverts m && is_role_inverted m r in
    match tgt with
    | TAtom a =>
        atom_text_ok a &&
        (if deinv && mem atom_eqb (atom_name a) vars
         then deinv_ok m r && negb (atom_eqb (atom_name a) var) else true)
    | TNode n' => wf_node m vars n' && (if deinv then deinv_ok m r else true)
    end.

Fixpoint wf_bs (m : model) (vars : list atom) (var : atom) (first : bool) (bs : list branch) : bool :=
  match bs with
  | [] => true
  | b :: bs' => wf_branch m vars var first b && wf_bs m vars var false bs'
  end.

Lemma wf_node_eq : forall m vars var bs,
  wf_node m vars (Node var bs) = var_ok var && wf_bs m vars var true bs.
Proof.
  intros m vars var bs. simpl. f_equal.
  match goal with
  | |- ?g true bs = _ => assert (E : forall l first, g first l = wf_bs m vars var first l)
  end.
  { induction l as [|[role tgt] l IH]; intros first; [reflexivity|].
    simpl. rewrite IH. reflexivity. }
  apply E.
Qed.

(* ---- text lemmas: partition on the tilde ---- *)
Lemma startswith_nil : forall s, startswith s [] = true.
Proof. destruct s; reflexivity. Qed.

Lemma partition_at_cons : forall c s,
  partition_at [TILDE] (c :: s) =
  if eqc TILDE c then ([], true, s)
  else let '(a, f, b) := partition_at [TILDE] s in
       if f then (c :: a, true, b) else (c :: a, false, []).
Proof.
  intros c s.
  change (partition_at [TILDE] (c :: s)) with
    (if eqc TILDE c && startswith s [] then ([], true, s)
     else let '(a, f, b) := partition_at [TILDE] s in
          if f then (c :: a, true, b) else (c :: a, false, [])).
  rewrite startswith_nil, andb_true_r. reflexivity.
Qed.

Lemma contains_cons : forall c d s, contains_char c (d :: s) = eqc c d || contains_char c s.
Proof. reflexivity. Qed.

Lemma partition_tilde_spec : forall s a f b,
  partition_at [TILDE] s = (a, f, b) ->
  (f = true /\ s = a ++ TILDE :: b /\ contains_char TILDE a = false) \/
  (f = false /\ s = a /\ b = [] /\ contains_char TILDE s = false).
Proof.
  induction s as [|c s IH]; intros a f b H.
  - simpl in H. inversion H; subst. right. auto.
  - rewrite partition_at_cons in H. destruct (eqc TILDE c) eqn:E.
    + inversion H; subst. apply eqc_eq in E. subst c. left. auto.
    + destruct (partition_at [TILDE] s) as [[a' f'] b'] eqn:P.
      destruct (IH a' f' b' eq_refl) as [[F [S1 S2]]|[F [S1 [S2 S3]]]]; subst f'.
      * inversion H; subst. left. split; [reflexivity|]. split; [reflexivity|].
        rewrite contains_cons, E. exact S2.
      * inversion H; subst. right. split; [reflexivity|]. split; [reflexivity|]. split; [reflexivity|].
        rewrite contains_cons, E. exact S3.
Qed.

Lemma contains_app : forall c a b, contains_char c (a ++ b) = contains_char c a || contains_char c b.
Proof. intros. unfold contains_char, isin. apply existsb_app. Qed.

Lemma aln_from_string_tilde : forall s, aln_from_string (TILDE :: s) = aln_from_string s.
Proof. reflexivity. Qed.

Lemma aln_nf_spec : forall text, aln_nf text = true ->
  exists idx pre, aln_from_string text = Ok (idx, pre) /\ aln_to_string idx pre = text.
Proof.
  intros text H. unfold aln_nf in H.
  destruct (aln_from_string text) as [[idx pre]| | | | | | | |]; try discriminate.
  exists idx, pre. split; [reflexivity|]. apply str_eqb_eq. exact H.
Qed.

(* a non-slash role with ok text: what _process_role returns, and how it prints back *)
Lemma role_text_ok_spec : forall role, str_eqb role SLASHS = false -> role_text_ok role = true ->
  exists r repis,
    process_role role = Ok (r, repis) /\
    startswith r [COLON] = true /\ str_eqb r INSTANCE = false /\
    forallb (fun e => is_raln e) repis = true /\
    (forall tgt, apply_epis r tgt repis = (role, tgt) /\
        (forall tepis, apply_epis r tgt (repis ++ tepis) = apply_epis role tgt tepis)).
Proof.
  intros role NS H. unfold role_text_ok in H. unfold process_role. rewrite NS.
  unfold partition in *. destruct (partition_at [TILDE] role) as [[r f] aln] eqn:P.
  apply andb_true_iff in H. destruct H as [H H3]. apply andb_true_iff in H. destruct H as [H1 H2].
  apply negb_true_iff in H2.
  destruct (partition_tilde_spec _ _ _ _ P) as [[F [S1 S2]]|[F [S1 [S2 S3]]]]; subst f.
  - simpl in H3. destruct (aln_nf_spec _ H3) as [idx [pre [A1 A2]]].
    rewrite aln_from_string_tilde in A1.
    assert (C : contains_char TILDE role = true).
    { subst role. rewrite contains_app, contains_cons.
      replace (eqc TILDE TILDE) with true by reflexivity. rewrite orb_true_r. reflexivity. }
    rewrite C, A1. simpl. exists r, [RAln idx pre]. split; [reflexivity|].
    split; [exact H1|]. split; [exact H2|]. split; [reflexivity|].
    intros tgt. unfold apply_epis. simpl. unfold epi_str. rewrite A2, <- S1.
    split; [reflexivity|]. intros tepis. reflexivity.
  - subst r aln. rewrite S3. exists role, []. split; [reflexivity|].
    split; [exact H1|]. split; [exact H2|]. split; [reflexivity|].
    intros tgt. split; [reflexivity|]. intros; reflexivity.
Qed.

Lemma apply_epis_aln1 : forall role a i p,
  apply_epis role (TAtom a) [Aln i p] = (role, TAtom (AStr (atom_str a ++ aln_to_string i p))).
Proof. reflexivity. Qed.

Lemma atom_text_ok_spec : forall a, atom_text_ok a = true ->
  exists a' tepis,
    process_atomic a = Ok (a', tepis) /\ forallb is_aln tepis = true /\
    (a' = a \/ exists t, a' = AStr t) /\
    forall role, apply_epis role (TAtom a') tepis = (role, TAtom a).
Proof.
  intros [|s|t z] H; simpl in H.
  - exists ANone, []. repeat split; auto.
  - unfold process_atomic.
    destruct (contains_char TILDE s) eqn:C; simpl in H |- *.
    2:{ exists (AStr s), []. repeat split; auto. }
    destruct (startswith s [QUOTE]) eqn:Q.
    + destruct (rindex QUOTE s) as [i|] eqn:R.
      2:{ exists (AStr s), []. repeat split; auto. }
      destruct (Nat.ltb (S i) (length s)) eqn:L.
      2:{ exists (AStr s), []. repeat split; auto. }
      destruct (aln_nf_spec _ H) as [idx [pre [A1 A2]]]. rewrite A1. simpl.
      exists (AStr (firstn (S i) s)), [Aln idx pre]. split; [reflexivity|]. split; [reflexivity|].
      split; [right; eexists; reflexivity|].
      intros role. rewrite apply_epis_aln1, A2. unfold atom_str. rewrite firstn_skipn. reflexivity.
    + unfold partition in *. destruct (partition_at [TILDE] s) as [[t f] aln] eqn:P.
      destruct (partition_tilde_spec _ _ _ _ P) as [[F [S1 S2]]|[F [S1 [S2 S3]]]]; [|congruence].
      destruct (aln_nf_spec _ H) as [idx [pre [A1 A2]]]. rewrite aln_from_string_tilde in A1.
      rewrite A1. simpl. exists (AStr t), [Aln idx pre]. split; [reflexivity|]. split; [reflexivity|].
      split; [right; eexists; reflexivity|].
      intros role. rewrite apply_epis_aln1, A2. unfold atom_str. rewrite <- S1. reflexivity.
  - subst z. exists (ANum t true), []. repeat split; auto.
Qed.

(* ------------------------------------------------------------------ *)
(** * Part 3: _preconfigure on the entries of a tree *)

Definition pstep (m : model) (var : atom) (role : str) (target : atom)
  (st : triple * bool * list epi * nat * list atom) (e : epi) :=
  let '(t', push, keep, pops, pushed) := st in
  match e with
  | Push pv =>
      if mem atom_eqb pv pushed then st
      else if negb (atom_eqb pv var || atom_eqb pv target) || str_eqb role INSTANCE then st
      else ((if atom_eqb pv var then invert m t' else t'), true, keep, pops, pv :: pushed)
  | Pop => (t', push, keep, S pops, pushed)
  | _ => (t', push, keep ++ [e], pops, pushed)
  end.

Lemma preconf_one_eq : forall m t es pushed,
  preconf_one m t es pushed =
  fold_left (pstep m (tsrc t) (trole t) (ttgt t)) es (t, false, [], O, pushed).
Proof. reflexivity. Qed.

Definition keep_only (l : list epi) : bool := forallb (fun e => negb (is_layout e)) l.

Lemma fold_pstep_keep : forall m var role target l t' push keep pops pushed,
  keep_only l = true ->
  fold_left (pstep m var role target) l (t', push, keep, pops, pushed) =
  (t', push, keep ++ l, pops, pushed).
Proof.
  intros m var role target l. induction l as [|e l IH]; intros t' push keep pops pushed H.
  - rewrite app_nil_r. reflexivity.
  - simpl in H. apply andb_true_iff in H. destruct H as [He Hl].
    simpl fold_left. destruct e; simpl in He; try discriminate;
      simpl pstep; rewrite (IH _ _ _ _ _ Hl), <- app_assoc; reflexivity.
Qed.

Lemma fold_pstep_pops : forall m var role target k t' push keep pops pushed,
  fold_left (pstep m var role target) (repeat Pop k) (t', push, keep, pops, pushed) =
  (t', push, keep, k + pops, pushed).
Proof.
  intros m var role target k. induction k as [|k IH]; intros; [reflexivity|].
  simpl. rewrite IH. f_equal. f_equal. lia.
Qed.

(* the data one entry contributes, computed with an empty [pushed] set *)
Definition datum_of_entry (m : model) (e : epientry) : list datum :=
  let '(t', push, keep, pops, _) := preconf_one m (fst e) (snd e) [] in
  DT t' push keep :: repeat DPop pops.
Definition seg (m : model) (es : list epientry) : list datum := flat_map (datum_of_entry m) es.

Lemma repeat_snoc : forall {A} (x : A) n, repeat x (S n) = repeat x n ++ [x].
Proof. intros A x n. induction n as [|n IH]; [reflexivity|]. simpl in *. rewrite <- IH. reflexivity. Qed.

Lemma datum_of_entry_pop : forall m t l,
  datum_of_entry m (t, l ++ [Pop]) = datum_of_entry m (t, l) ++ [DPop].
Proof.
  intros m t l. unfold datum_of_entry. simpl fst. simpl snd.
  rewrite !preconf_one_eq, fold_left_app.
  destruct (fold_left (pstep m (tsrc t) (trole t) (ttgt t)) l (t, false, [], 0, []))
    as [[[[t' push] keep] pops] pushed].
  change (fold_left (pstep m (tsrc t) (trole t) (ttgt t)) [Pop] (t', push, keep, pops, pushed))
    with (t', push, keep, S pops, pushed).
  cbv beta iota. rewrite (repeat_snoc DPop pops). reflexivity.
Qed.

Lemma seg_app : forall m a b, seg m (a ++ b) = seg m a ++ seg m b.
Proof. intros. unfold seg. apply flat_map_app. Qed.

Lemma seg_add_pop_last : forall m es, es <> [] -> seg m (add_pop_last es) = seg m es ++ [DPop].
Proof.
  intros m es. induction es as [|[t l] es IH]; intros NE; [congruence|].
  destruct es as [|e es].
  - simpl add_pop_last. unfold seg. simpl flat_map. rewrite !app_nil_r. apply datum_of_entry_pop.
  - change (add_pop_last ((t, l) :: e :: es)) with ((t, l) :: add_pop_last (e :: es)).
    change (seg m ((t, l) :: add_pop_last (e :: es))) with
      (datum_of_entry m (t, l) ++ seg m (add_pop_last (e :: es))).
    rewrite IH by discriminate.
    change (seg m ((t, l) :: e :: es)) with (datum_of_entry m (t, l) ++ seg m (e :: es)).
    rewrite app_assoc. reflexivity.
Qed.

Lemma entries_nonempty : forall m vars n, entries m vars n <> [].
Proof.
  intros m vars [v bs]. rewrite entries_eq.
  destruct (has_concept bs) eqn:HC; [|discriminate].
  destruct bs as [|[role t] bs]; [discriminate HC|].
  destruct t; [rewrite entries_bs_atom | rewrite entries_bs_node]; discriminate.
Qed.

(* ---- atom equality is an equivalence ---- *)
Lemma atom_eqb_refl : forall a, atom_eqb a a = true.
Proof. intros [|s|t z]; simpl; auto using str_eqb_refl. Qed.
Lemma atom_eqb_sym : forall a b, atom_eqb a b = atom_eqb b a.
Proof.
  intros [|s|t z] [|s'|t' z']; simpl; try reflexivity.
  - destruct (str_eqb s s') eqn:E.
    + apply str_eqb_eq in E. subst. symmetry. apply str_eqb_refl.
    + symmetry. apply str_eqb_neq. intros H. subst. rewrite str_eqb_refl in E. discriminate.
  - destruct (str_eqb t t') eqn:E.
    + apply str_eqb_eq in E. subst. symmetry. apply str_eqb_refl.
    + symmetry. apply str_eqb_neq. intros H. subst. rewrite str_eqb_refl in E. discriminate.
Qed.
Lemma atom_eqb_trans : forall a b c, atom_eqb a b = true -> atom_eqb b c = true -> atom_eqb a c = true.
Proof.
  intros [|s|t z] [|s'|t' z'] [|s''|t'' z'']; simpl; try discriminate; try reflexivity;
    intros H1 H2; apply str_eqb_eq in H1; apply str_eqb_eq in H2; subst; apply str_eqb_refl.
Qed.
Lemma mem_compat : forall a b l, atom_eqb a b = true -> mem atom_eqb a l = mem atom_eqb b l.
Proof.
  intros a b l E. unfold mem. induction l as [|x l IH]; [reflexivity|]. simpl. rewrite IH. f_equal.
  destruct (atom_eqb b x) eqn:B.
  - apply atom_eqb_trans with b; assumption.
  - destruct (atom_eqb a x) eqn:A; [|reflexivity].
    rewrite atom_eqb_sym in E. rewrite (atom_eqb_trans _ _ _ E A) in B. discriminate.
Qed.
Lemma mem_app : forall a l1 l2, mem atom_eqb a (l1 ++ l2) = mem atom_eqb a l1 || mem atom_eqb a l2.
Proof. intros. unfold mem. apply existsb_app. Qed.
Lemma mem_cons : forall a x l, mem atom_eqb a (x :: l) = atom_eqb a x || mem atom_eqb a l.
Proof. reflexivity. Qed.

Lemma nodup_b_app : forall l1 l2, nodup_b atom_eqb (l1 ++ l2) = true ->
  nodup_b atom_eqb l1 = true /\ nodup_b atom_eqb l2 = true /\
  (forall v, mem atom_eqb v l1 = true -> mem atom_eqb v l2 = false).
Proof.
  induction l1 as [|x l1 IH]; intros l2 H.
  - simpl in *. split; [reflexivity|]. split; [exact H|]. intros v Hv. discriminate.
  - simpl in H. apply andb_true_iff in H. destruct H as [H1 H2].
    apply negb_true_iff in H1. rewrite mem_app in H1. apply orb_false_iff in H1. destruct H1 as [H1a H1b].
    destruct (IH l2 H2) as [I1 [I2 I3]]. split; [|split].
    + simpl. rewrite H1a, I1. reflexivity.
    + exact I2.
    + intros v Hv. rewrite mem_cons in Hv. apply orb_true_iff in Hv. destruct Hv as [Hv|Hv].
      * rewrite (mem_compat _ _ _ Hv). exact H1b.
      * apply I3. exact Hv.
Qed.

(* ------------------------------------------------------------------ *)
(** * Part 4: the store the single pass builds *)

Definition atom_edges (role : str) (a : atom) : list cedge :=
  if str_eqb role SLASHS then
    (if missing_concept (atom_name a) then [] else [(SLASHS, CA (atom_name a), snd (proc_atom a))])
  else [(role_name role, CA (atom_name a), snd (proc_role role) ++ snd (proc_atom a))].

(* [flat_node off n]: the store entries of [n] (which gets id [off]) and of its
   descendants, in allocation (depth-first) order *)
Fixpoint flat_node (off : nat) (n : node) : store :=
  match n with
  | Node v bs =>
      let fix go (off : nat) (bs : list branch) : list cedge * store :=
        match bs with
        | [] => ([], [])
        | (role, TAtom a) :: bs' => let '(es, ks) := go off bs' in (atom_edges role a ++ es, ks)
        | (role, TNode n') :: bs' =>
            let k1 := flat_node off n' in
            let '(es, ks) := go (off + length k1) bs' in
            ((role_name role, CN off, snd (proc_role role)) :: es, k1 ++ ks)
        end in
      let '(es, ks) := go (S off) bs in (v, es) :: ks
  end.

Fixpoint flat_bs (off : nat) (bs : list branch) : list cedge * store :=
  match bs with
  | [] => ([], [])
  | (role, TAtom a) :: bs' => let '(es, ks) := flat_bs off bs' in (atom_edges role a ++ es, ks)
  | (role, TNode n') :: bs' =>
      let k1 := flat_node off n' in
      let '(es, ks) := flat_bs (off + length k1) bs' in
      ((role_name role, CN off, snd (proc_role role)) :: es, k1 ++ ks)
  end.

Lemma flat_node_eq : forall off v bs,
  flat_node off (Node v bs) = (v, fst (flat_bs (S off) bs)) :: snd (flat_bs (S off) bs).
Proof.
  intros off v bs. simpl.
  match goal with
  | |- (let '(_, _) := ?g (S off) bs in _) = _ => assert (E : forall l o, g o l = flat_bs o l)
  end.
  { induction l as [|[role [a|n']] l IH]; intros o; [reflexivity| |]; simpl; rewrite IH; reflexivity. }
  rewrite E. destruct (flat_bs (S off) bs). reflexivity.
Qed.

Lemma flat_bs_atom : forall off role a bs,
  flat_bs off ((role, TAtom a) :: bs) =
  (atom_edges role a ++ fst (flat_bs off bs), snd (flat_bs off bs)).
Proof. intros. simpl. destruct (flat_bs off bs). reflexivity. Qed.
Lemma flat_bs_node : forall off role n' bs,
  flat_bs off ((role, TNode n') :: bs) =
  ((role_name role, CN off, snd (proc_role role)) :: fst (flat_bs (off + length (flat_node off n')) bs),
   flat_node off n' ++ snd (flat_bs (off + length (flat_node off n')) bs)).
Proof. intros. simpl. destruct (flat_bs (off + length (flat_node off n')) bs). reflexivity. Qed.

Definition target_vars (t : target) : list atom :=
  match t with TNode n => tree_vars n | TAtom _ => [] end.
Definition bs_vars (bs : list branch) : list atom := flat_map (fun b : branch => target_vars (snd b)) bs.

Lemma tree_vars_eq : forall v bs,
  tree_vars (Node v bs) = match v with ANone => [] | _ => [v] end ++ bs_vars bs.
Proof.
  intros v bs. unfold tree_vars, bs_vars. simpl.
  match goal with
  | |- map _ (match v with ANone => ?g bs | _ => _ end) = _ =>
      assert (E : forall l, map node_var (g l) = flat_map (fun b : branch => target_vars (snd b)) l)
  end.
  { induction l as [|[r [a|n']] l IH]; [reflexivity| |].
    - simpl. exact IH.
    - simpl. rewrite map_app, IH. reflexivity. }
  destruct v; simpl; rewrite E; reflexivity.
Qed.

(* ---- store helpers ---- *)
Lemma upd_at : forall {A} (f : A -> A) pre x post, upd (length pre) f (pre ++ x :: post) = pre ++ f x :: post.
Proof. intros A f pre x post. induction pre as [|y pre IH]; [reflexivity|]. simpl. rewrite IH. reflexivity. Qed.

Lemma nth_error_at : forall {A} pre (x : A) post, nth_error (pre ++ x :: post) (length pre) = Some x.
Proof. intros A pre x post. induction pre as [|y pre IH]; [reflexivity|]. simpl. exact IH. Qed.

Lemma has_node_mem : forall v st nm, has_node v st nm = true -> mem atom_eqb v (map fst st) = true.
Proof.
  intros v st nm H. unfold has_node in H.
  destruct (dget atom_eqb v nm) as [[id|]|]; try discriminate.
  destruct (nth_error st id) as [[v' es]|] eqn:N; try discriminate.
  apply nth_error_In in N. unfold mem. apply existsb_exists. exists v'. split.
  - apply in_map_iff. exists (v', es). auto.
  - rewrite atom_eqb_sym. exact H.
Qed.

(* ---- one step of _configure_node ---- *)
Definition place (m : model) (var : atom) (surp : bool) (t : triple) (push : bool)
  : option (str * atom * bool * bool) :=
  if atom_eqb (tsrc t) var then Some (trole t, ttgt t, push, surp)
  else if atom_eqb (ttgt t) var && negb (str_eqb (trole t) INSTANCE) then
    let t' := invert m t in Some (trole t', ttgt t', false, true)
  else None.

Definition nm_site (target : atom) (id : nat) (nm : nmap) : nmap :=
  match dget atom_eqb target nm with
  | Some None => dset atom_eqb target (Some id) nm
  | _ => nm
  end.

Lemma cnode_DT : forall f m var id surp t push es data st nm,
  cnode (S f) m var id surp (DT t push es :: data) st nm =
  match place m var surp t push with
  | None => Ok (true, DT t push es :: data, st, nm)
  | Some (role, target, push, surp) =>
      if str_eqb role INSTANCE then
        if missing_concept target then cnode f m var id surp data st nm
        else cnode f m var id surp data (add_edge_front id (SLASHS, CA target, es) st) nm
      else
        if push && negb (has_node target st nm) then
          match cnode f m target (length st) false data (st ++ [(target, [])])
                      (dset atom_eqb target (Some (length st)) nm) with
          | Ok (s2, data2, st2, nm2) =>
              cnode f m var id (surp && s2) data2 (add_edge_end id (role, CN (length st), es) st2) nm2
          | DecodeErr l o => DecodeErr l o | LayoutErr k => LayoutErr k
          | ConstErr => ConstErr | ModelErr => ModelErr | SurfaceErr => SurfaceErr
          | GraphErr => GraphErr | Other k => Other k | OutOfFuel => OutOfFuel
          end
        else cnode f m var id surp data (add_edge_end id (role, CA target, es) st) (nm_site target id nm)
  end.
Proof. reflexivity. Qed.

Lemma cnode_pop : forall f m var id surp data st nm,
  cnode (S f) m var id surp (DPop :: data) st nm = Ok (surp, data, st, nm).
Proof. reflexivity. Qed.
Lemma cnode_nil : forall f m var id surp st nm,
  cnode (S f) m var id surp [] st nm = Ok (surp, [], st, nm).
Proof. reflexivity. Qed.

Lemma interp_ok_inv : forall m vars n ts es,
  interp_node m vars n = Ok (ts, es) ->
  node_ok n = true /\ ts = map fst (entries m vars n) /\ es = entries m vars n.
Proof.
  intros m vars n ts es H. destruct (interp_node_spec m vars n) as [H1 H2].
  destruct (node_ok n) eqn:NO.
  - rewrite (H1 eq_refl) in H. inversion H. auto.
  - exfalso. exact (H2 eq_refl _ H).
Qed.

(* ------------------------------------------------------------------ *)
(** * Part 5: the data of one branch *)

Lemma keep_only_app : forall a b, keep_only a = true -> keep_only b = true -> keep_only (a ++ b) = true.
Proof. intros a b Ha Hb. unfold keep_only in *. rewrite forallb_app, Ha, Hb. reflexivity. Qed.
Lemma raln_keep : forall l, forallb is_raln l = true -> keep_only l = true.
Proof.
  intros l H. unfold keep_only. rewrite forallb_forall in *. intros e He.
  specialize (H e He). destruct e; simpl in *; congruence.
Qed.
Lemma aln_keep : forall l, forallb is_aln l = true -> keep_only l = true.
Proof.
  intros l H. unfold keep_only. rewrite forallb_forall in *. intros e He.
  specialize (H e He). destruct e; simpl in *; congruence.
Qed.

Lemma datum_keep : forall m t l, keep_only l = true -> datum_of_entry m (t, l) = [DT t false l].
Proof.
  intros m t l H. unfold datum_of_entry. simpl fst. simpl snd.
  rewrite preconf_one_eq, fold_pstep_keep by exact H. reflexivity.
Qed.

Lemma reinvert : forall m r, is_role_inverted m r = true -> deinv_ok m r = true ->
  invert_role m r = drop_last 3 r /\ invert_role m (drop_last 3 r) = r /\
  str_eqb (drop_last 3 r) INSTANCE = false.
Proof.
  intros m r I D. unfold deinv_ok in D. apply andb_true_iff in D. destruct D as [D1 D2].
  apply negb_true_iff in D1. apply negb_true_iff in D2.
  split; [apply invert_inverted; exact I|]. split; [|exact D2].
  rewrite (invert_plain _ _ D1). symmetry. apply endswith_OF_split.
  unfold is_role_inverted in I. apply andb_true_iff in I. tauto.
Qed.

Lemma deinvert_eq : forall m s r t,
  deinvert m (s, r, t) =
  if deinverts m && is_role_inverted m r then (t, invert_role m r, s) else (s, r, t).
Proof.
  intros m s r t. unfold deinvert, invert, trole, tsrc, ttgt. cbn [fst snd].
  destruct (deinverts m), (is_role_inverted m r); reflexivity.
Qed.

(* the datum of a branch that opens a nested node *)
Lemma datum_push : forall m var r v' repis,
  keep_only repis = true -> str_eqb r INSTANCE = false -> atom_eqb v' var = false ->
  (deinverts m && is_role_inverted m r = true -> deinv_ok m r = true) ->
  datum_of_entry m (deinvert m (var, r, v'), repis ++ [Push v']) = [DT (var, r, v') true repis].
Proof.
  intros m var r v' repis K NI NV D. unfold datum_of_entry. simpl fst. simpl snd.
  rewrite preconf_one_eq, fold_left_app, (fold_pstep_keep _ _ _ _ _ _ _ _ _ _ K). simpl app.
  rewrite deinvert_eq.
  destruct (deinverts m && is_role_inverted m r) eqn:C.
  - apply andb_true_iff in C. destruct C as [DV IR].
    destruct (reinvert m r IR (D eq_refl)) as [R1 [R2 R3]]. rewrite R1.
    unfold tsrc, trole, ttgt; cbn [fst snd].
    simpl fold_left. unfold pstep. simpl mem.
    rewrite atom_eqb_refl. simpl orb. simpl negb. rewrite R3. simpl orb.
    unfold invert, tsrc, trole, ttgt; cbn [fst snd]. rewrite R2. reflexivity.
  - unfold tsrc, trole, ttgt; cbn [fst snd]. simpl fold_left. unfold pstep. simpl mem.
    rewrite NV, atom_eqb_refl. simpl. rewrite NI. reflexivity.
Qed.

(* where _configure_node puts the triple of an atomic branch *)
Lemma place_atom : forall m vars var r a' surp,
  str_eqb r INSTANCE = false ->
  (deinverts m && is_role_inverted m r && mem atom_eqb a' vars = true ->
   deinv_ok m r = true /\ atom_eqb a' var = false) ->
  exists s', place m var surp (atom_triple m vars var r a') false = Some (r, a', false, s').
Proof.
  intros m vars var r a' surp NI D. unfold atom_triple. rewrite deinvert_eq.
  destruct (is_role_inverted m r) eqn:IR; simpl andb.
  2:{ exists surp. unfold place, tsrc, trole, ttgt; cbn [fst snd]. rewrite atom_eqb_refl. reflexivity. }
  destruct (mem atom_eqb a' vars) eqn:M.
  2:{ exists surp. unfold place, tsrc, trole, ttgt; cbn [fst snd]. rewrite atom_eqb_refl. reflexivity. }
  rewrite andb_true_r in *.
  destruct (deinverts m) eqn:DV.
  2:{ exists surp. unfold place, tsrc, trole, ttgt; cbn [fst snd]. rewrite atom_eqb_refl. reflexivity. }
  destruct (D eq_refl) as [D1 D2]. destruct (reinvert m r IR D1) as [R1 [R2 R3]].
  exists true. unfold place, invert, tsrc, trole, ttgt; cbn [fst snd andb].
  rewrite D2, atom_eqb_refl, R1, R3. cbn [andb negb]. rewrite R2. reflexivity.
Qed.

Lemma add_edge_end_at : forall pre var e0 kids e,
  add_edge_end (length pre) e (pre ++ (var, e0) :: kids) = pre ++ (var, e0 ++ [e]) :: kids.
Proof. intros. unfold add_edge_end. rewrite upd_at. reflexivity. Qed.
Lemma add_edge_front_at : forall pre var e0 kids e,
  add_edge_front (length pre) e (pre ++ (var, e0) :: kids) = pre ++ (var, e :: e0) :: kids.
Proof. intros. unfold add_edge_front. rewrite upd_at. reflexivity. Qed.

(* ------------------------------------------------------------------ *)
(** * Part 6: the single pass of _configure_node over the data of a wf tree *)

Lemma map_fst_store : forall (pre : store) var e0 kids,
  map fst (pre ++ (var, e0) :: kids) = map fst pre ++ var :: map fst kids.
Proof. intros. rewrite map_app. reflexivity. Qed.

Lemma wf_bs_cons : forall m vars var first b bs,
  wf_bs m vars var first (b :: bs) = wf_branch m vars var first b && wf_bs m vars var false bs.
Proof. reflexivity. Qed.

Lemma wf_branch_false_noslash : forall m vars var role tgt,
  wf_branch m vars var false (role, tgt) = true -> str_eqb role SLASHS = false.
Proof.
  intros m vars var role tgt H. unfold wf_branch in H.
  destruct (str_eqb role SLASHS); [discriminate H | reflexivity].
Qed.

Lemma wf_branch_first_irrelevant : forall m vars var first role tgt,
  str_eqb role SLASHS = false ->
  wf_branch m vars var first (role, tgt) = wf_branch m vars var false (role, tgt).
Proof. intros. unfold wf_branch. rewrite H. reflexivity. Qed.

Lemma role_name_slash : role_name SLASHS = INSTANCE /\ snd (proc_role SLASHS) = [].
Proof. split; reflexivity. Qed.

Lemma instance_not_inverted : forall m, is_role_inverted m INSTANCE = false.
Proof. intros m. unfold is_role_inverted. replace (endswith INSTANCE OF) with false by reflexivity. apply andb_false_r. Qed.

Lemma wf_bs_true_cases : forall m vars var bs, wf_bs m vars var true bs = true ->
  (exists a bs', bs = (SLASHS, TAtom a) :: bs' /\ atom_text_ok a = true /\ concept_ok a = true /\
                 wf_bs m vars var false bs' = true) \/
  wf_bs m vars var false bs = true.
Proof.
  intros m vars var [|[role tgt] bs'] H; [right; reflexivity|].
  rewrite wf_bs_cons in H. apply andb_true_iff in H. destruct H as [H1 H2].
  destruct (str_eqb role SLASHS) eqn:SL.
  - left. unfold wf_branch in H1. rewrite SL in H1. simpl in H1.
    destruct tgt as [a|n']; [|discriminate]. apply andb_true_iff in H1. destruct H1 as [A C].
    apply str_eqb_eq in SL. subst role. exists a, bs'. auto.
  - right. rewrite wf_bs_cons. rewrite <- (wf_branch_first_irrelevant m vars var true role tgt SL), H1, H2. reflexivity.
Qed.

Lemma wf_bs_no_concept : forall m vars var bs, wf_bs m vars var false bs = true -> has_concept bs = false.
Proof.
  intros m vars var bs. induction bs as [|[role tgt] bs IH]; intros H; [reflexivity|].
  rewrite wf_bs_cons in H. apply andb_true_iff in H. destruct H as [H1 H2].
  rewrite has_concept_cons, (IH H2), orb_false_r. simpl fst.
  pose proof (wf_branch_false_noslash _ _ _ _ _ H1) as NS.
  unfold wf_branch in H1. rewrite NS in H1. apply andb_true_iff in H1. destruct H1 as [RT _].
  destruct (role_text_ok_spec role NS RT) as [r [repis [PR [_ [NI _]]]]].
  unfold role_name, proc_role. rewrite PR. exact NI.
Qed.

Section Main.
  Variable m : model.
  Variable vars : list atom.

  Definition Pn (n : node) : Prop :=
    wf_node m vars n = true -> nodup_b atom_eqb (tree_vars n) = true ->
    forall f tail pre nm surp,
      (forall v, mem atom_eqb v (tree_vars n) = true -> mem atom_eqb v (map fst pre) = false) ->
      length (seg m (entries m vars n) ++ tail) < f ->
      exists f' surp' nm', length tail < f' /\
        cnode f m (node_var n) (length pre) surp (seg m (entries m vars n) ++ tail)
              (pre ++ [(node_var n, [])]) nm
        = cnode f' m (node_var n) (length pre) surp' tail (pre ++ flat_node (length pre) n) nm'.

  Definition Qbs (var : atom) (bs : list branch) : Prop :=
    wf_bs m vars var false bs = true -> nodup_b atom_eqb (bs_vars bs) = true ->
    forall f tail pre e0 kids nm surp,
      (forall v, mem atom_eqb v (bs_vars bs) = true ->
                 mem atom_eqb v (map fst (pre ++ (var, e0) :: kids)) = false) ->
      length (seg m (entries_bs m vars var bs) ++ tail) < f ->
      exists f' surp' nm', length tail < f' /\
        cnode f m var (length pre) surp (seg m (entries_bs m vars var bs) ++ tail)
              (pre ++ (var, e0) :: kids) nm
        = cnode f' m var (length pre) surp' tail
            (pre ++ (var, e0 ++ fst (flat_bs (length (pre ++ (var, e0) :: kids)) bs))
                 :: kids ++ snd (flat_bs (length (pre ++ (var, e0) :: kids)) bs)) nm'.

  Lemma map_fst_flat_bs : forall var bs,
    Forall (branch_ok (fun n => wf_node m vars n = true -> forall off, map fst (flat_node off n) = tree_vars n)) bs ->
    forall first off, wf_bs m vars var first bs = true -> map fst (snd (flat_bs off bs)) = bs_vars bs.
  Proof.
    intros var bs F. induction F as [|[role tgt] bs Hb F IH]; intros first off H; [reflexivity|].
    rewrite wf_bs_cons in H. apply andb_true_iff in H. destruct H as [H1 H2].
    destruct tgt as [a|n'].
    - rewrite flat_bs_atom. simpl snd. unfold bs_vars. simpl. apply (IH false off H2).
    - rewrite flat_bs_node. simpl snd. rewrite map_app. unfold bs_vars. simpl flat_map.
      f_equal.
      + unfold branch_ok in Hb. simpl in Hb. apply Hb.
        unfold wf_branch in H1. destruct (str_eqb role SLASHS).
        * rewrite andb_false_r in H1. discriminate.
        * apply andb_true_iff in H1. destruct H1 as [_ H1]. apply andb_true_iff in H1. tauto.
      + apply (IH false _ H2).
  Qed.

  Lemma map_fst_flat : forall n, wf_node m vars n = true -> forall off, map fst (flat_node off n) = tree_vars n.
  Proof.
    induction n as [v bs IHbs] using node_ind'. intros W off.
    rewrite wf_node_eq in W. apply andb_true_iff in W. destruct W as [V W].
    rewrite flat_node_eq, tree_vars_eq. simpl map.
    rewrite (map_fst_flat_bs v bs IHbs true (S off) W).
    destruct v; simpl in V; try discriminate. reflexivity.
  Qed.
End Main.

Lemma seg_cons : forall m e es, seg m (e :: es) = datum_of_entry m e ++ seg m es.
Proof. reflexivity. Qed.

Lemma store_len : forall (pre : store) var e0 e1 kids,
  length (pre ++ (var, e0) :: kids) = length (pre ++ (var, e1) :: kids).
Proof. intros. rewrite !app_length. reflexivity. Qed.

Lemma wf_node_var_ok : forall m vars n, wf_node m vars n = true -> var_ok (node_var n) = true.
Proof.
  intros m vars [v bs] H. rewrite wf_node_eq in H. apply andb_true_iff in H. tauto.
Qed.
Lemma tree_vars_head : forall n, var_ok (node_var n) = true ->
  mem atom_eqb (node_var n) (tree_vars n) = true.
Proof.
  intros [v bs] H. rewrite tree_vars_eq. simpl node_var in *.
  destruct v; simpl in H; try discriminate. simpl app. rewrite mem_cons, atom_eqb_refl. reflexivity.
Qed.

Section Main2.
  Variable m : model.
  Variable vars : list atom.

  Lemma Qbs_all : forall var bs, Forall (branch_ok (Pn m vars)) bs -> Qbs m vars var bs.
  Proof.
    intros var bs F. induction F as [|[role tgt] bs Hb F IH];
      intros W ND f tail pre e0 kids nm surp FR LEN.
    - exists f, surp, nm. split; [exact LEN|]. simpl. rewrite !app_nil_r. reflexivity.
    - rewrite wf_bs_cons in W. apply andb_true_iff in W. destruct W as [W1 W2].
      pose proof (wf_branch_false_noslash _ _ _ _ _ W1) as NS.
      unfold wf_branch in W1. rewrite NS in W1.
      apply andb_true_iff in W1. destruct W1 as [RT W1].
      destruct (role_text_ok_spec role NS RT) as [r [repis [PR [_ [NI [RK _]]]]]].
      assert (RN : role_name role = r) by (unfold role_name, proc_role; rewrite PR; reflexivity).
      assert (RE : snd (proc_role role) = repis) by (unfold proc_role; rewrite PR; reflexivity).
      rewrite RN in W1.
      destruct tgt as [a|n'].
      + (* atomic target *)
        rewrite flat_bs_atom. cbn [fst snd].
        apply andb_true_iff in W1. destruct W1 as [AT W1].
        destruct (atom_text_ok_spec a AT) as [a' [tepis [PA [TK _]]]].
        assert (AN : atom_name a = a') by (unfold atom_name, proc_atom; rewrite PA; reflexivity).
        assert (AE : snd (proc_atom a) = tepis) by (unfold proc_atom; rewrite PA; reflexivity).
        rewrite AN in W1.
        rewrite entries_bs_atom, seg_cons, RN, RE, AN, AE in *.
        rewrite datum_keep in * by (apply keep_only_app; [apply raln_keep | apply aln_keep]; assumption).
        simpl app in *. destruct f as [|f1]; [simpl in LEN; lia|].
        rewrite cnode_DT.
        destruct (place_atom m vars var r a' surp NI) as [s' PL].
        { intros C. rewrite C in W1. apply andb_true_iff in W1. destruct W1 as [D1 D2].
          apply negb_true_iff in D2. auto. }
        rewrite PL, NI. simpl andb. cbv iota. rewrite add_edge_end_at.
        unfold bs_vars in ND, FR. simpl flat_map in ND, FR.
        destruct (IH W2 ND f1 tail pre (e0 ++ [(r, CA a', repis ++ tepis)]) kids
                    (nm_site a' (length pre) nm) s') as [f' [surp' [nm' [L' E']]]].
        { intros v Hv. rewrite map_fst_store. rewrite <- (map_fst_store pre var e0 kids). apply FR. exact Hv. }
        { simpl in LEN. lia. }
        exists f', surp', nm'. split; [exact L'|]. eapply eq_trans; [exact E'|].
        rewrite (store_len pre var (e0 ++ [(r, CA a', repis ++ tepis)]) e0 kids).
        unfold atom_edges. rewrite NS, RN, RE, AN, AE.
        rewrite <- !app_assoc. reflexivity.
      + (* nested node *)
        rewrite flat_bs_node. cbn [fst snd].
        apply andb_true_iff in W1. destruct W1 as [WN W1].
        unfold branch_ok in Hb. simpl in Hb.
        unfold bs_vars in ND, FR. simpl flat_map in ND, FR. fold (bs_vars bs) in ND, FR.
        destruct (nodup_b_app _ _ ND) as [ND1 [ND2 DJ]].
        set (v' := node_var n') in *.
        assert (FRv : mem atom_eqb v' (map fst (pre ++ (var, e0) :: kids)) = false).
        { apply FR. rewrite mem_app. unfold v'.
          rewrite (tree_vars_head n' (wf_node_var_ok _ _ _ WN)). reflexivity. }
        assert (NV : atom_eqb v' var = false).
        { rewrite map_fst_store, mem_app, mem_cons in FRv. apply orb_false_iff in FRv.
          destruct FRv as [_ FRv]. apply orb_false_iff in FRv. tauto. }
        rewrite entries_bs_node, seg_cons, seg_app, RN, RE in *. fold v' in LEN |- *.
        rewrite (seg_add_pop_last m _ (entries_nonempty m vars n')) in *.
        rewrite (datum_push m var r v' repis (raln_keep _ RK) NI NV) in *
          by (intros C; rewrite C in W1; exact W1).
        simpl app in *. rewrite <- !app_assoc in *. simpl app in *.
        destruct f as [|f1]; [simpl in LEN; lia|].
        rewrite cnode_DT.
        assert (PL : place m var surp (var, r, v') true = Some (r, v', true, surp)).
        { unfold place, tsrc, trole, ttgt; cbn [fst snd]. rewrite atom_eqb_refl. reflexivity. }
        rewrite PL, NI.
        assert (HN : has_node v' (pre ++ (var, e0) :: kids) nm = false).
        { destruct (has_node v' (pre ++ (var, e0) :: kids) nm) eqn:HN; [|reflexivity].
          apply has_node_mem in HN. congruence. }
        rewrite HN. simpl andb. cbv iota.
        (* the nested node *)
        destruct (Hb WN ND1 f1 (DPop :: seg m (entries_bs m vars var bs) ++ tail)
                     (pre ++ (var, e0) :: kids)
                     (dset atom_eqb v' (Some (length (pre ++ (var, e0) :: kids))) nm) false)
          as [f2 [s2 [nm2 [L2 E2]]]].
        { intros v Hv. apply FR. rewrite mem_app, Hv. reflexivity. }
        { simpl in LEN. simpl. lia. }
        fold v' in E2. rewrite E2.
        destruct f2 as [|f2]; [simpl in L2; lia|]. rewrite cnode_pop.
        (* back in the parent *)
        replace ((pre ++ (var, e0) :: kids) ++ flat_node (length (pre ++ (var, e0) :: kids)) n')
          with (pre ++ (var, e0) :: (kids ++ flat_node (length (pre ++ (var, e0) :: kids)) n'))
          by (rewrite <- app_assoc; reflexivity).
        rewrite add_edge_end_at.
        set (L := length (pre ++ (var, e0) :: kids)) in *.
        set (FL := flat_node L n') in *.
        destruct (IH W2 ND2 f1 tail pre (e0 ++ [(r, CN L, repis)]) (kids ++ FL) nm2 (surp && s2))
          as [f' [surp' [nm' [L' E']]]].
        { intros v Hv. rewrite map_fst_store, map_app.
          unfold FL. rewrite (map_fst_flat m vars _ WN L).
          assert (A1 : mem atom_eqb v (map fst (pre ++ (var, e0) :: kids)) = false).
          { apply FR. rewrite mem_app, Hv. apply orb_true_r. }
          rewrite map_fst_store in A1.
          rewrite mem_app, mem_cons, mem_app in *.
          apply orb_false_iff in A1. destruct A1 as [A1 A2]. apply orb_false_iff in A2. destruct A2 as [A2 A3].
          rewrite A1, A2, A3. simpl.
          destruct (mem atom_eqb v (tree_vars n')) eqn:A4; [|reflexivity].
          rewrite (DJ v A4) in Hv. discriminate. }
        { simpl in LEN. rewrite app_length in LEN. simpl in LEN. lia. }
        exists f', surp', nm'. split; [exact L'|]. eapply eq_trans; [exact E'|].
        assert (LL : length (pre ++ (var, e0 ++ [(r, CN L, repis)]) :: kids ++ FL) = L + length FL).
        { unfold L. rewrite !app_length. simpl. rewrite app_length. lia. }
        rewrite LL. try rewrite RN. try rewrite RE.
        rewrite <- !app_assoc. reflexivity.
  Qed.
End Main2.

Section Main3.
  Variable m : model.
  Variable vars : list atom.

  Theorem Pn_all : forall n, Pn m vars n.
  Proof.
    induction n as [v bs IHbs] using node_ind'.
    intros W ND f tail pre nm surp FR LEN.
    rewrite wf_node_eq in W. apply andb_true_iff in W. destruct W as [VO W].
    assert (TV : tree_vars (Node v bs) = v :: bs_vars bs).
    { rewrite tree_vars_eq. destruct v; simpl in VO; try discriminate. reflexivity. }
    rewrite TV in ND, FR. simpl nodup_b in ND. apply andb_true_iff in ND. destruct ND as [NDv ND].
    apply negb_true_iff in NDv.
    simpl node_var. rewrite flat_node_eq. rewrite entries_eq in *.
    assert (LS : forall e0, length (pre ++ [(v, e0)]) = S (length pre)).
    { intros e0. rewrite app_length. simpl. lia. }
    assert (FRQ : forall e0 x, mem atom_eqb x (bs_vars bs) = true ->
                  mem atom_eqb x (map fst (pre ++ [(v, e0)])) = false).
    { intros e0 x Hx. rewrite map_fst_store. simpl map. rewrite mem_app, mem_cons.
      rewrite (FR x) by (rewrite mem_cons, Hx; apply orb_true_r). simpl. rewrite orb_false_r.
      destruct (atom_eqb x v) eqn:XV; [|reflexivity].
      rewrite (mem_compat _ _ _ XV) in Hx. congruence. }
    destruct (wf_bs_true_cases m vars v bs W) as [[a [bs' [EB [AT [CO W']]]]]|W'].
    - (* the node has a concept slot *)
      subst bs. inversion IHbs as [|? ? _ IHbs']; subst.
      pose proof (Qbs_all m vars v bs' IHbs') as Q.
      assert (HC : has_concept ((SLASHS, TAtom a) :: bs') = true) by reflexivity.
      rewrite HC in *. rewrite flat_bs_atom. cbn [fst snd].
      destruct (atom_text_ok_spec a AT) as [a' [tepis [PA [TK _]]]].
      assert (AN : atom_name a = a') by (unfold atom_name, proc_atom; rewrite PA; reflexivity).
      assert (AE : snd (proc_atom a) = tepis) by (unfold proc_atom; rewrite PA; reflexivity).
      rewrite entries_bs_atom, seg_cons in *.
      destruct role_name_slash as [RS1 RS2]. rewrite RS1, RS2, AN, AE in *. simpl app in LEN |- *.
      unfold atom_triple in *. rewrite instance_not_inverted in *. simpl andb in *. cbv iota in LEN |- *.
      rewrite datum_keep in * by (apply aln_keep; exact TK).
      simpl app in LEN |- *. destruct f as [|f1]; [simpl in LEN; lia|].
      rewrite cnode_DT.
      assert (PL : place m v surp (v, INSTANCE, a') false = Some (INSTANCE, a', false, surp)).
      { unfold place, tsrc, trole, ttgt; cbn [fst snd]. rewrite atom_eqb_refl. reflexivity. }
      rewrite PL. replace (str_eqb INSTANCE INSTANCE) with true by reflexivity.
      unfold bs_vars in ND, FRQ. simpl flat_map in ND, FRQ. fold (bs_vars bs') in ND, FRQ.
      unfold atom_edges. replace (str_eqb SLASHS SLASHS) with true by reflexivity. rewrite AN, AE.
      destruct (missing_concept a') eqn:MC.
      + destruct (Q W' ND f1 tail pre [] [] nm surp (FRQ [])) as [f' [surp' [nm' [L' E']]]].
        { simpl in LEN. lia. }
        exists f', surp', nm'. split; [exact L'|]. eapply eq_trans; [exact E'|].
        rewrite LS. reflexivity.
      + replace (pre ++ [(v, [])]) with (pre ++ (v, []) :: []) by reflexivity.
        rewrite add_edge_front_at.
        destruct (Q W' ND f1 tail pre [(SLASHS, CA a', tepis)] [] nm surp (FRQ _)) as [f' [surp' [nm' [L' E']]]].
        { simpl in LEN. lia. }
        exists f', surp', nm'. split; [exact L'|]. eapply eq_trans; [exact E'|].
        rewrite LS. reflexivity.
    - (* no concept slot: the synthetic instance triple comes first and is skipped *)
      pose proof (Qbs_all m vars v bs IHbs) as Q.
      rewrite (wf_bs_no_concept _ _ _ _ W') in *. cbv iota in LEN |- *.
      rewrite seg_cons in *.
      assert (DI : datum_of_entry m ((v, INSTANCE, ANone), []) = [DT (v, INSTANCE, ANone) false []]) by reflexivity.
      rewrite DI in *.
      simpl app in LEN |- *. destruct f as [|f1]; [simpl in LEN; lia|].
      rewrite cnode_DT.
      assert (PL : place m v surp (v, INSTANCE, ANone) false = Some (INSTANCE, ANone, false, surp)).
      { unfold place, tsrc, trole, ttgt; cbn [fst snd]. rewrite atom_eqb_refl. reflexivity. }
      rewrite PL. replace (str_eqb INSTANCE INSTANCE) with true by reflexivity.
      replace (missing_concept ANone) with true by reflexivity. cbv iota.
      destruct (Q W' ND f1 tail pre [] [] nm surp (FRQ [])) as [f' [surp' [nm' [L' E']]]].
      { simpl in LEN. lia. }
      exists f', surp', nm'. split; [exact L'|]. eapply eq_trans; [exact E'|].
      rewrite LS. reflexivity.
  Qed.
End Main3.

(* ------------------------------------------------------------------ *)
(** * Part 7: reading the tree back from the store *)

Definition dec_branch (b : branch) : branch :=
  match snd b with TNode n => (fst b, TNode (dec_node n)) | TAtom _ => b end.

Lemma dec_node_eq : forall v bs,
  dec_node (Node v bs) =
  match bs with
  | (r, TAtom a) :: bs' =>
      if str_eqb r SLASHS && missing_concept a then Node v (map dec_branch bs') else Node v (map dec_branch bs)
  | _ => Node v (map dec_branch bs)
  end.
Proof.
  intros v bs. simpl.
  match goal with
  | |- context [?g bs] =>
      assert (E : forall l, g l = map dec_branch l)
  end.
  { induction l as [|[r [a|n']] l IH]; [reflexivity| |]; simpl; rewrite IH; reflexivity. }
  destruct bs as [|[r [a|n']] bs']; rewrite ?E; reflexivity.
Qed.

Definition edge_branch (f : nat) (st : store) (e : cedge) : branch :=
  let '(r, t, ep) := e in
  apply_epis r (match t with CA a => TAtom a | CN i => TNode (build f st i) end) ep.

Lemma build_S : forall f st id,
  build (S f) st id =
  match nth_error st id with
  | Some (v, es) => Node v (map (edge_branch f st) es)
  | None => Node ANone []
  end.
Proof. reflexivity. Qed.

Definition Bn (m : model) (vars : list atom) (n : node) : Prop :=
  wf_node m vars n = true ->
  forall pre post fuel, length (flat_node (length pre) n) <= fuel ->
    build fuel (pre ++ flat_node (length pre) n ++ post) (length pre) = dec_node n.

Lemma build_bs : forall m vars var bs, Forall (branch_ok (Bn m vars)) bs ->
  wf_bs m vars var false bs = true ->
  forall st f pre2 post2,
    st = pre2 ++ snd (flat_bs (length pre2) bs) ++ post2 ->
    length (snd (flat_bs (length pre2) bs)) <= f ->
    map (edge_branch f st) (fst (flat_bs (length pre2) bs)) = map dec_branch bs.
Proof.
  intros m vars var bs F. induction F as [|[role tgt] bs Hb F IH]; intros W st f pre2 post2 ST LEN;
    [reflexivity|].
  rewrite wf_bs_cons in W. apply andb_true_iff in W. destruct W as [W1 W2].
  pose proof (wf_branch_false_noslash _ _ _ _ _ W1) as NS.
  unfold wf_branch in W1. rewrite NS in W1.
  apply andb_true_iff in W1. destruct W1 as [RT W1].
  destruct (role_text_ok_spec role NS RT) as [r [repis [PR [_ [NI [RK AP]]]]]].
  assert (RN : role_name role = r) by (unfold role_name, proc_role; rewrite PR; reflexivity).
  assert (RE : snd (proc_role role) = repis) by (unfold proc_role; rewrite PR; reflexivity).
  destruct tgt as [a|n'].
  - rewrite flat_bs_atom in *. cbn [fst snd] in *.
    apply andb_true_iff in W1. destruct W1 as [AT _].
    destruct (atom_text_ok_spec a AT) as [a' [tepis [PA [TK [_ AA]]]]].
    assert (AN : atom_name a = a') by (unfold atom_name, proc_atom; rewrite PA; reflexivity).
    assert (AE : snd (proc_atom a) = tepis) by (unfold proc_atom; rewrite PA; reflexivity).
    unfold atom_edges. rewrite NS, RN, RE, AN, AE. simpl app. simpl map. f_equal.
    + unfold edge_branch. destruct (AP (TAtom a')) as [_ AP2]. rewrite AP2. apply AA.
    + apply (IH W2 st f pre2 post2 ST LEN).
  - rewrite flat_bs_node in *. cbn [fst snd] in *.
    apply andb_true_iff in W1. destruct W1 as [WN _].
    rewrite RN, RE. simpl map. f_equal.
    + unfold edge_branch. destruct (AP (TNode (build f st (length pre2)))) as [AP1 _]. rewrite AP1.
      unfold dec_branch. simpl. f_equal. f_equal.
      unfold branch_ok in Hb. simpl in Hb. subst st. rewrite <- app_assoc.
      apply (Hb WN). rewrite app_length in LEN. lia.
    + rewrite app_length in LEN.
      assert (LE : length pre2 + length (flat_node (length pre2) n') = length (pre2 ++ flat_node (length pre2) n'))
        by (rewrite app_length; reflexivity).
      rewrite LE in *.
      apply (IH W2 st f (pre2 ++ flat_node (length pre2) n') post2).
      * rewrite ST, <- !app_assoc. reflexivity.
      * lia.
Qed.

Lemma missing_raw : forall a, missing_concept a = true -> atom_name a = a /\ snd (proc_atom a) = [].
Proof. intros [|[|c s]|t z] H; try discriminate; split; reflexivity. Qed.

Theorem Bn_all : forall m vars n, Bn m vars n.
Proof.
  intros m vars. induction n as [v bs IHbs] using node_ind'.
  intros W pre post fuel LEN.
  rewrite wf_node_eq in W. apply andb_true_iff in W. destruct W as [VO W].
  rewrite flat_node_eq in *. simpl length in LEN. destruct fuel as [|f]; [lia|].
  rewrite build_S. simpl app. rewrite nth_error_at.
  set (st := pre ++ (v, fst (flat_bs (S (length pre)) bs)) :: snd (flat_bs (S (length pre)) bs) ++ post).
  assert (LP : S (length pre) = length (pre ++ [(v, fst (flat_bs (S (length pre)) bs))])).
  { rewrite app_length. simpl. lia. }
  rewrite dec_node_eq.
  destruct (wf_bs_true_cases m vars v bs W) as [[a [bs' [EB [AT [CO W']]]]]|W'].
  - subst bs. inversion IHbs as [|? ? _ IHbs']; subst.
    replace (str_eqb SLASHS SLASHS) with true by reflexivity. rewrite andb_true_l.
    destruct (atom_text_ok_spec a AT) as [a' [tepis [PA [TK [_ AA]]]]].
    assert (AN : atom_name a = a') by (unfold atom_name, proc_atom; rewrite PA; reflexivity).
    assert (AE : snd (proc_atom a) = tepis) by (unfold proc_atom; rewrite PA; reflexivity).
    assert (TL : map (edge_branch f st) (fst (flat_bs (S (length pre)) bs')) = map dec_branch bs').
    { rewrite LP at 1.
      apply (build_bs m vars v bs' IHbs' W' st f (pre ++ [(v, fst (flat_bs (S (length pre)) ((SLASHS, TAtom a) :: bs')))]) post).
      - unfold st. rewrite <- LP, <- app_assoc. rewrite flat_bs_atom. reflexivity.
      - rewrite <- LP. rewrite flat_bs_atom in LEN. cbn [snd] in LEN. lia. }
    rewrite flat_bs_atom. cbn [fst snd]. unfold atom_edges.
    replace (str_eqb SLASHS SLASHS) with true by reflexivity. rewrite AN, AE.
    unfold concept_ok in CO. rewrite AN in CO.
    destruct (missing_concept a) eqn:MA.
    + destruct (missing_raw a MA) as [M1 M2]. rewrite AN in M1.
      assert (MA' : missing_concept a' = true) by (rewrite M1; exact MA).
      rewrite MA'. simpl app. rewrite TL. reflexivity.
    + simpl in CO. apply negb_true_iff in CO. rewrite CO. simpl app. simpl map. rewrite TL.
      f_equal. f_equal. unfold edge_branch. apply AA.
  - assert (TL : map (edge_branch f st) (fst (flat_bs (S (length pre)) bs)) = map dec_branch bs).
    { rewrite LP at 1.
      apply (build_bs m vars v bs IHbs W' st f (pre ++ [(v, fst (flat_bs (S (length pre)) bs))]) post).
      - unfold st. rewrite <- LP, <- app_assoc. reflexivity.
      - rewrite <- LP. lia. }
    rewrite TL.
    destruct bs as [|[r [a|n']] bs']; try reflexivity.
    rewrite wf_bs_cons in W'. apply andb_true_iff in W'. destruct W' as [W1 _].
    rewrite (wf_branch_false_noslash _ _ _ _ _ W1). reflexivity.
Qed.

(* ------------------------------------------------------------------ *)
(** * Part 8: _preconfigure on the graph interpret returns *)

Lemma triple_eqb_refl : forall t, triple_eqb t t = true.
Proof. intros [[s r] t]. unfold triple_eqb, tsrc, trole, ttgt. simpl. rewrite !atom_eqb_refl, str_eqb_refl. reflexivity. Qed.
Lemma triple_eqb_sym : forall a b, triple_eqb a b = triple_eqb b a.
Proof.
  intros [[s r] t] [[s' r'] t']. unfold triple_eqb, tsrc, trole, ttgt. simpl.
  rewrite (atom_eqb_sym s s'), (atom_eqb_sym t t'). f_equal. f_equal.
  destruct (str_eqb r r') eqn:E.
  - apply str_eqb_eq in E. subst. symmetry. apply str_eqb_refl.
  - symmetry. apply str_eqb_neq. intros H. subst. rewrite str_eqb_refl in E. discriminate.
Qed.

Lemma dget_nodup_in : forall (d : list epientry) k v,
  nodup_b triple_eqb (map fst d) = true -> In (k, v) d -> dget triple_eqb k d = Some v.
Proof.
  induction d as [|[k0 v0] d IH]; intros k v ND H; [destruct H|].
  simpl in ND. apply andb_true_iff in ND. destruct ND as [N1 N2]. apply negb_true_iff in N1.
  destruct H as [H|H].
  - inversion H; subst. simpl. rewrite triple_eqb_refl. reflexivity.
  - simpl. destruct (triple_eqb k k0) eqn:E; [|apply IH; assumption].
    exfalso. assert (M : mem triple_eqb k0 (map fst d) = true).
    { unfold mem. apply existsb_exists. exists k. split.
      - apply in_map_iff. exists (k, v). auto.
      - rewrite triple_eqb_sym. exact E. }
    congruence.
Qed.

Lemma dmem_false : forall (d : list epientry) k,
  mem triple_eqb k (map fst d) = false -> dmem triple_eqb k d = false.
Proof.
  intros d k H. unfold dmem. induction d as [|[k0 v0] d IH]; [reflexivity|].
  simpl in *. apply orb_false_iff in H. destruct H as [H1 H2]. rewrite H1. apply IH. exact H2.
Qed.

Lemma epimap_of_nodup : forall es, nodup_b triple_eqb (map fst es) = true -> epimap_of es = es.
Proof.
  intros es. unfold epimap_of.
  assert (G : forall (es d : list epientry),
    nodup_b triple_eqb (map fst es) = true ->
    (forall e, In e es -> mem triple_eqb (fst e) (map fst d) = false) ->
    fold_left (fun d e => if dmem triple_eqb (fst e) d then d else d ++ [e]) es d = d ++ es).
  { clear es. induction es as [|e es IH]; intros d ND H.
    - rewrite app_nil_r. reflexivity.
    - simpl in ND. apply andb_true_iff in ND. destruct ND as [N1 N2]. apply negb_true_iff in N1.
      simpl fold_left. rewrite (dmem_false d (fst e)) by (apply H; left; reflexivity).
      rewrite IH.
      + rewrite <- app_assoc. reflexivity.
      + exact N2.
      + intros e' He'. rewrite map_app. unfold mem. rewrite existsb_app. simpl.
        fold (mem triple_eqb (fst e') (map fst d)). rewrite (H e') by (right; exact He'). simpl.
        rewrite orb_false_r.
        destruct (triple_eqb (fst e') (fst e)) eqn:E; [|reflexivity].
        exfalso. assert (M : mem triple_eqb (fst e) (map fst es) = true).
        { unfold mem. apply existsb_exists. exists (fst e'). split; [apply in_map; exact He'|].
          rewrite triple_eqb_sym. exact E. }
        congruence. }
  intros ND. apply (G es [] ND). intros e _. reflexivity.
Qed.

(* the variables pushed by a marker list / by a list of entries *)
Definition pv_of (l : list epi) : list atom :=
  flat_map (fun e => match e with Push v => [v] | _ => [] end) l.
Definition pushes (es : list epientry) : list atom := flat_map (fun e => pv_of (snd e)) es.

Lemma fold_pstep_pushed : forall m var role target l a b c d p0 pushed,
  (forall v, mem atom_eqb v (pv_of l) = true -> mem atom_eqb v pushed = false) ->
  fold_left (pstep m var role target) l (a, b, c, d, p0 ++ pushed) =
  let '(a', b', c', d', p') := fold_left (pstep m var role target) l (a, b, c, d, p0) in
  (a', b', c', d', p' ++ pushed).
Proof.
  intros m var role target l. induction l as [|e l IH]; intros a b c d p0 pushed H; [reflexivity|].
  simpl fold_left. destruct e as [pv| | |].
  - assert (Hpv : mem atom_eqb pv pushed = false).
    { apply H. simpl. rewrite atom_eqb_refl. reflexivity. }
    assert (Hl : forall v, mem atom_eqb v (pv_of l) = true -> mem atom_eqb v pushed = false).
    { intros v Hv. apply H. simpl. rewrite Hv. apply orb_true_r. }
    rewrite mem_app, Hpv, orb_false_r.
    destruct (mem atom_eqb pv p0); [apply IH; exact Hl|].
    destruct (negb (atom_eqb pv var || atom_eqb pv target) || str_eqb role INSTANCE); [apply IH; exact Hl|].
    rewrite app_comm_cons. apply IH. exact Hl.
  - apply IH. exact H.
  - apply IH. exact H.
  - apply IH. exact H.
Qed.

Lemma fold_pstep_pushed_sub : forall m var role target l a b c d p0,
  forall v, mem atom_eqb v (snd (fold_left (pstep m var role target) l (a, b, c, d, p0))) = true ->
            mem atom_eqb v p0 = true \/ mem atom_eqb v (pv_of l) = true.
Proof.
  intros m var role target l. induction l as [|e l IH]; intros a b c d p0 v H; [left; exact H|].
  simpl fold_left in H. destruct e as [pv| | |]; simpl pv_of.
  - destruct (mem atom_eqb pv p0).
    { destruct (IH _ _ _ _ _ _ H); [left|right; rewrite mem_cons, H0, orb_true_r]; auto. }
    destruct (negb (atom_eqb pv var || atom_eqb pv target) || str_eqb role INSTANCE).
    { destruct (IH _ _ _ _ _ _ H); [left|right; rewrite mem_cons, H0, orb_true_r]; auto. }
    destruct (IH _ _ _ _ _ _ H) as [H0|H0].
    + rewrite mem_cons in H0. apply orb_true_iff in H0. destruct H0 as [H0|H0]; [right|left; exact H0].
      rewrite mem_cons, H0. reflexivity.
    + right. rewrite mem_cons, H0. apply orb_true_r.
  - apply (IH _ _ _ _ _ _ H).
  - apply (IH _ _ _ _ _ _ H).
  - apply (IH _ _ _ _ _ _ H).
Qed.

Lemma preconf_cons : forall m t ts ed pushed,
  preconf m (t :: ts) ed pushed =
  let es := match dget triple_eqb t ed with Some l => l | None => [] end in
  let '(t', push, keep, pops, pushed') := preconf_one m t es pushed in
  DT t' push keep :: repeat DPop pops ++ preconf m ts ed pushed'.
Proof. reflexivity. Qed.

Lemma preconf_seg : forall m ed es pushed,
  (forall e, In e es -> dget triple_eqb (fst e) ed = Some (snd e)) ->
  nodup_b atom_eqb (pushes es) = true ->
  (forall v, mem atom_eqb v (pushes es) = true -> mem atom_eqb v pushed = false) ->
  preconf m (map fst es) ed pushed = seg m es.
Proof.
  intros m ed es. induction es as [|[t l] es IH]; intros pushed HD ND FR; [reflexivity|].
  simpl map. rewrite preconf_cons. pose proof (HD (t, l) (or_introl eq_refl)) as HD0. simpl fst in HD0. simpl snd in HD0.
  rewrite HD0.
  cbv zeta. rewrite seg_cons. unfold datum_of_entry. simpl fst. simpl snd.
  unfold pushes in ND, FR. simpl flat_map in ND, FR. fold (pushes es) in ND, FR.
  destruct (nodup_b_app _ _ ND) as [ND1 [ND2 DJ]].
  rewrite !preconf_one_eq.
  pose proof (fold_pstep_pushed m (tsrc t) (trole t) (ttgt t) l t false [] 0 [] pushed) as FP.
  simpl app in FP. rewrite FP by (intros v Hv; apply FR; rewrite mem_app, Hv; reflexivity).
  pose proof (fold_pstep_pushed_sub m (tsrc t) (trole t) (ttgt t) l t false [] 0 []) as SUB.
  destruct (fold_left (pstep m (tsrc t) (trole t) (ttgt t)) l (t, false, [], 0, []))
    as [[[[t' push] keep] pops] p'].
  simpl snd in SUB. simpl app. f_equal. f_equal.
  apply IH.
  - intros e He. apply HD. right. exact He.
  - exact ND2.
  - intros v Hv. rewrite mem_app. rewrite (FR v) by (rewrite mem_app, Hv; apply orb_true_r).
    rewrite orb_false_r. destruct (mem atom_eqb v p') eqn:P; [|reflexivity].
    destruct (SUB v P) as [S1|S1]; [discriminate S1|].
    rewrite (DJ v S1) in Hv. discriminate.
Qed.

(* ---- the pushes of the entries of a wf tree are its nested variables ---- *)
Lemma pv_of_app : forall a b, pv_of (a ++ b) = pv_of a ++ pv_of b.
Proof. intros. unfold pv_of. apply flat_map_app. Qed.

Lemma pv_proc_role : forall role, pv_of (snd (proc_role role)) = [].
Proof.
  intros role. unfold proc_role, process_role.
  destruct (str_eqb role SLASHS); [reflexivity|].
  destruct (contains_char TILDE role); [|reflexivity].
  destruct (partition [TILDE] role) as [[r f] aln].
  destruct (aln_from_string aln) as [[idx pre]| | | | | | | |]; reflexivity.
Qed.

Lemma pv_proc_atom : forall a, pv_of (snd (proc_atom a)) = [].
Proof.
  intros [|s|t z]; unfold proc_atom, process_atomic; [reflexivity| |destruct z; reflexivity].
  destruct (negb (contains_char TILDE s)); [reflexivity|].
  destruct (startswith s [QUOTE]).
  - destruct (rindex QUOTE s) as [i|]; [|reflexivity].
    destruct (Nat.ltb (S i) (length s)); [|reflexivity].
    destruct (aln_from_string (skipn (S i) s)) as [[idx pre]| | | | | | | |]; reflexivity.
  - destruct (partition [TILDE] s) as [[r f] aln].
    destruct (aln_from_string aln) as [[idx pre]| | | | | | | |]; reflexivity.
Qed.

Lemma pushes_app : forall a b, pushes (a ++ b) = pushes a ++ pushes b.
Proof. intros. unfold pushes. apply flat_map_app. Qed.

Lemma pushes_add_pop_last : forall es, pushes (add_pop_last es) = pushes es.
Proof.
  induction es as [|[t l] es IH]; [reflexivity|].
  destruct es as [|e es].
  - unfold pushes. simpl. rewrite pv_of_app. simpl. rewrite !app_nil_r. reflexivity.
  - change (add_pop_last ((t, l) :: e :: es)) with ((t, l) :: add_pop_last (e :: es)).
    change (pushes ((t, l) :: add_pop_last (e :: es))) with (pv_of l ++ pushes (add_pop_last (e :: es))).
    rewrite IH. reflexivity.
Qed.

Lemma pushes_entries_bs : forall m vars var bs,
  Forall (branch_ok (fun n => wf_node m vars n = true ->
                              pushes (entries m vars n) = bs_vars (node_branches n))) bs ->
  forall first, wf_bs m vars var first bs = true ->
  pushes (entries_bs m vars var bs) = bs_vars bs.
Proof.
  intros m vars var bs F. induction F as [|[role tgt] bs Hb F IH]; intros first W; [reflexivity|].
  rewrite wf_bs_cons in W. apply andb_true_iff in W. destruct W as [W1 W2].
  destruct tgt as [a|n'].
  - rewrite entries_bs_atom. unfold pushes. simpl flat_map. rewrite pv_of_app, pv_proc_role, pv_proc_atom.
    simpl app. apply (IH false W2).
  - rewrite entries_bs_node.
    change (pushes (?e :: ?l)) with (pv_of (snd e) ++ pushes l).
    simpl snd. rewrite pv_of_app, pv_proc_role, pushes_app, pushes_add_pop_last. simpl app.
    assert (WN : wf_node m vars n' = true).
    { unfold wf_branch in W1. destruct (str_eqb role SLASHS).
      - rewrite andb_false_r in W1. discriminate.
      - apply andb_true_iff in W1. destruct W1 as [_ W1]. apply andb_true_iff in W1. tauto. }
    unfold branch_ok in Hb. simpl in Hb. rewrite (Hb WN), (IH false W2).
    unfold bs_vars at 3. simpl flat_map. fold (bs_vars bs).
    destruct n' as [v' bs2]. rewrite tree_vars_eq. simpl node_var. simpl node_branches.
    pose proof (wf_node_var_ok _ _ _ WN) as VO. simpl in VO.
    destruct v'; simpl in VO; try discriminate. reflexivity.
Qed.

Lemma pushes_entries : forall m vars n, wf_node m vars n = true ->
  pushes (entries m vars n) = bs_vars (node_branches n).
Proof.
  intros m vars. induction n as [v bs IHbs] using node_ind'. intros W.
  rewrite wf_node_eq in W. apply andb_true_iff in W. destruct W as [_ W].
  rewrite entries_eq. simpl node_branches.
  destruct (has_concept bs).
  - apply (pushes_entries_bs m vars v bs IHbs true W).
  - change (pushes (?e :: ?l)) with (pv_of (snd e) ++ pushes l). simpl.
    apply (pushes_entries_bs m vars v bs IHbs true W).
Qed.

(* ---- roles of the denoted triples start with a colon ---- *)
Lemma colon_drop_of : forall m r, startswith r [COLON] = true -> is_role_inverted m r = true ->
  startswith (drop_last 3 r) [COLON] = true.
Proof.
  intros m r C I. apply inverted_iff in I. destruct I as [_ [b E]]. subst r.
  rewrite drop_last_OF. apply colon_iff in C. destruct C as [t C].
  destruct b as [|c b]; [discriminate C|]. inversion C; subst. apply colon_iff. eexists; reflexivity.
Qed.

Definition colon_triple (t : triple) : bool := startswith (trole t) [COLON].
Lemma forallb_cons : forall {A} (f : A -> bool) x l, forallb f (x :: l) = f x && forallb f l.
Proof. reflexivity. Qed.

Lemma colon_entries_bs : forall m vars var bs,
  Forall (branch_ok (fun n => wf_node m vars n = true ->
                              forallb colon_triple (map fst (entries m vars n)) = true)) bs ->
  forall first, wf_bs m vars var first bs = true ->
  forallb colon_triple (map fst (entries_bs m vars var bs)) = true.
Proof.
  intros m vars var bs F. induction F as [|[role tgt] bs Hb F IH]; intros first W; [reflexivity|].
  rewrite wf_bs_cons in W. apply andb_true_iff in W. destruct W as [W1 W2].
  assert (RC : startswith (role_name role) [COLON] = true).
  { unfold wf_branch in W1. destruct (str_eqb role SLASHS) eqn:SL.
    - apply str_eqb_eq in SL. subst role. reflexivity.
    - apply andb_true_iff in W1. destruct W1 as [RT _].
      destruct (role_text_ok_spec role SL RT) as [r [repis [PR [C _]]]].
      unfold role_name, proc_role. rewrite PR. exact C. }
  destruct tgt as [a|n'].
  - rewrite entries_bs_atom. rewrite map_cons, forallb_cons. apply andb_true_iff. split; [|exact (IH false W2)]. simpl fst.
    unfold colon_triple, atom_triple. rewrite deinvert_eq.
    destruct (is_role_inverted m (role_name role)) eqn:IR; simpl andb; [|exact RC].
    destruct (mem atom_eqb (atom_name a) vars); [|exact RC].
    rewrite andb_true_r. destruct (deinverts m); [|exact RC].
    unfold trole; cbn [fst snd]. rewrite (invert_inverted _ _ IR). apply (colon_drop_of m); assumption.
  - rewrite entries_bs_node.
    rewrite map_cons, map_app, map_fst_add_pop_last.
    rewrite forallb_cons, forallb_app.
    assert (WN : wf_node m vars n' = true).
    { unfold wf_branch in W1. destruct (str_eqb role SLASHS).
      - rewrite andb_false_r in W1. discriminate.
      - apply andb_true_iff in W1. destruct W1 as [_ W1]. apply andb_true_iff in W1. tauto. }
    unfold branch_ok in Hb. simpl in Hb.
    apply andb_true_iff. split; [|apply andb_true_iff; split; [exact (Hb WN) | exact (IH false W2)]].
    simpl fst.
    unfold colon_triple. rewrite deinvert_eq.
    destruct (deinverts m); simpl andb; [|exact RC].
    destruct (is_role_inverted m (role_name role)) eqn:IR; [|exact RC].
    unfold trole; cbn [fst snd]. rewrite (invert_inverted _ _ IR). apply (colon_drop_of m); assumption.
Qed.

Lemma colon_entries : forall m vars n, wf_node m vars n = true ->
  forallb colon_triple (map fst (entries m vars n)) = true.
Proof.
  intros m vars. induction n as [v bs IHbs] using node_ind'. intros W.
  rewrite wf_node_eq in W. apply andb_true_iff in W. destruct W as [_ W].
  rewrite entries_eq. destruct (has_concept bs).
  - apply (colon_entries_bs m vars v bs IHbs true W).
  - simpl. apply (colon_entries_bs m vars v bs IHbs true W).
Qed.

Lemma mk_graph_triples_id : forall ts top ed meta,
  forallb colon_triple ts = true -> triples (mk_graph ts top ed meta) = ts.
Proof.
  intros ts top ed meta H. unfold mk_graph. simpl triples.
  induction ts as [|[[s r] t] ts IH]; [reflexivity|].
  simpl in H. apply andb_true_iff in H. destruct H as [H1 H2].
  simpl map. rewrite (IH H2). unfold tsrc, trole, ttgt; cbn [fst snd].
  unfold colon_triple, trole in H1. cbn [fst snd] in H1. unfold ensure_colon. rewrite H1. reflexivity.
Qed.

(* ---- interpret succeeds on wf trees ---- *)
Lemma wf_bs_ok : forall m vars var bs,
  Forall (branch_ok (fun n => wf_node m vars n = true -> node_ok n = true)) bs ->
  forall first, wf_bs m vars var first bs = true -> forallb branch_okb bs = true.
Proof.
  intros m vars var bs F. induction F as [|[role tgt] bs Hb F IH]; intros first W; [reflexivity|].
  rewrite wf_bs_cons in W. apply andb_true_iff in W. destruct W as [W1 W2].
  simpl forallb. rewrite (IH false W2), andb_true_r.
  unfold branch_okb. simpl fst. simpl snd. unfold wf_branch in W1.
  destruct (str_eqb role SLASHS) eqn:SL.
  - apply str_eqb_eq in SL. subst role. apply andb_true_iff in W1. destruct W1 as [_ W1].
    destruct tgt as [a|n']; [|discriminate]. apply andb_true_iff in W1. destruct W1 as [AT _].
    destruct (atom_text_ok_spec a AT) as [a' [tepis [PA _]]].
    replace (process_role SLASHS) with (Ok (INSTANCE, @nil epi)) by reflexivity.
    unfold target_ok. rewrite PA. reflexivity.
  - apply andb_true_iff in W1. destruct W1 as [RT W1].
    destruct (role_text_ok_spec role SL RT) as [r [repis [PR _]]]. rewrite PR.
    unfold is_ok at 1. rewrite andb_true_l.
    destruct tgt as [a|n']; unfold target_ok.
    + apply andb_true_iff in W1. destruct W1 as [AT _].
      destruct (atom_text_ok_spec a AT) as [a' [tepis [PA _]]]. rewrite PA. reflexivity.
    + apply andb_true_iff in W1. destruct W1 as [WN _]. unfold branch_ok in Hb. simpl in Hb. apply Hb. exact WN.
Qed.

Lemma wf_node_ok : forall m vars n, wf_node m vars n = true -> node_ok n = true.
Proof.
  intros m vars. induction n as [v bs IHbs] using node_ind'. intros W.
  rewrite wf_node_eq in W. apply andb_true_iff in W. destruct W as [_ W].
  rewrite node_ok_eq. apply (wf_bs_ok m vars v bs IHbs true W).
Qed.

(* ---- membership in [variables] ---- *)
Lemma mem_rev : forall a l, mem atom_eqb a (rev l) = mem atom_eqb a l.
Proof.
  intros a l. induction l as [|x l IH]; [reflexivity|].
  simpl rev. rewrite mem_app, IH, mem_cons. simpl. rewrite orb_false_r. apply orb_comm.
Qed.

Lemma mem_dedup_acc : forall a l acc,
  mem atom_eqb a (dedup_acc atom_eqb l acc) = mem atom_eqb a acc || mem atom_eqb a l.
Proof.
  intros a l. induction l as [|x l IH]; intros acc.
  - simpl. rewrite mem_rev, orb_false_r. reflexivity.
  - simpl dedup_acc. destruct (mem atom_eqb x acc) eqn:M.
    + rewrite IH, mem_cons. destruct (atom_eqb a x) eqn:E; [|reflexivity].
      rewrite (mem_compat _ _ _ E), M. reflexivity.
    + rewrite IH, !mem_cons. destruct (atom_eqb a x), (mem atom_eqb a acc); reflexivity.
Qed.

Lemma mem_dedup : forall a l, mem atom_eqb a (dedup atom_eqb l) = mem atom_eqb a l.
Proof. intros. unfold dedup. rewrite mem_dedup_acc. reflexivity. Qed.

(* ------------------------------------------------------------------ *)
(** * Part 9: configure after interpret *)

Lemma configure_eq : forall m g top t0 ts0,
  triples g = t0 :: ts0 -> graph_top g = Some top -> mem atom_eqb top (variables g) = true ->
  configure m g None =
  (let nm : nmap := dset atom_eqb top (Some O) (map (fun v => (v, None)) (variables g)) in
   let data := preconf m (triples g) (epidata g) [] in
   r <- cnode (S (length data)) m top O false data [(top, [])] nm ;;
   let '(_, data1, st1, nm1) := r in
   st2 <- cloop (configure_fuel (length data1)) m (drop_pops data1) [] st1 nm1 ;;
   Ok (mkTree (build (S (length st2)) st2 O) (gmeta g))).
Proof.
  intros m g top t0 ts0 T GT M. unfold configure. rewrite T, GT. rewrite <- T. rewrite M. reflexivity.
Qed.

Theorem configure_interpret_wf : forall m t g,
  wf_layout_tree m t = true -> interpret m t = Ok g ->
  configure m g None = Ok (drop_empty_concepts t).
Proof.
  intros m [root meta] g WF IN. unfold wf_layout_tree in WF. unfold denoted in WF. simpl troot in WF.
  set (vars := tree_vars root) in *.
  apply andb_true_iff in WF. destruct WF as [WF NDT]. apply andb_true_iff in WF. destruct WF as [ND W].
  unfold interpret in IN. simpl troot in IN. simpl tmeta in IN. fold vars in IN.
  destruct (interp_node m vars root) as [[ts es]| | | | | | | |] eqn:I; try discriminate.
  destruct (interp_ok_inv _ _ _ _ _ I) as [_ [Ets Ees]]. simpl in IN. inversion IN; subst g. clear IN.
  pose proof (wf_node_var_ok _ _ _ W) as VO.
  destruct root as [v bs]. simpl node_var in *.
  destruct v as [|[|c s]|tx z]; try discriminate VO.
  change (match AStr (c :: s) with ANone => None | v0 => Some v0 end) with (Some (AStr (c :: s))).
  set (v := AStr (c :: s)) in *.
  assert (TS : triples (mk_graph ts (Some v) (epimap_of es) meta) = ts).
  { apply mk_graph_triples_id. subst ts. apply colon_entries. exact W. }
  assert (ED : epimap_of es = es).
  { apply epimap_of_nodup. subst es. exact NDT. }
  assert (NE : es <> []) by (subst es; apply entries_nonempty).
  assert (NT : exists t0 ts0, ts = t0 :: ts0).
  { rewrite <- Ees in Ets. destruct es as [|e0 es0]; [congruence|]. rewrite Ets. simpl. eauto. }
  destruct NT as [t0 [ts0 ETS]].
  assert (TV : vars = v :: bs_vars bs).
  { unfold vars. rewrite tree_vars_eq. destruct v; simpl in VO; try discriminate; reflexivity. }
  rewrite (configure_eq m _ v t0 ts0).
  2:{ rewrite TS. exact ETS. }
  2:{ reflexivity. }
  2:{ unfold variables. rewrite mem_dedup. simpl gtop. rewrite mem_app, mem_cons, atom_eqb_refl.
      rewrite orb_true_r. reflexivity. }
  cbv zeta. rewrite TS. simpl epidata. rewrite ED. simpl gmeta.
  assert (DATA : preconf m ts es [] = seg m es).
  { rewrite Ets at 1. rewrite <- Ees. apply preconf_seg.
    - intros [k e] He. simpl. apply dget_nodup_in; [|exact He]. rewrite Ees. exact NDT.
    - rewrite Ees, (pushes_entries m vars _ W). simpl node_branches.
      rewrite TV in ND. simpl in ND. apply andb_true_iff in ND. tauto.
    - intros x _. reflexivity. }
  rewrite DATA.
  destruct (Pn_all m vars (Node v bs) W) with (f := S (length (seg m es))) (tail := @nil datum)
    (pre := @nil (atom * list cedge)) (surp := false)
    (nm := dset atom_eqb v (Some O) (map (fun v0 : atom => (v0, @None nat))
             (variables (mk_graph ts (Some v) (epimap_of es) meta))))
    as [f' [surp' [nm' [L' E']]]].
  { fold vars. exact ND. }
  { intros x _. reflexivity. }
  { rewrite <- Ees, app_nil_r. lia. }
  rewrite <- Ees, app_nil_r in E'. simpl node_var in E'. simpl length in E'. simpl app in E'.
  rewrite ED in E'. rewrite E'.
  destruct f' as [|f']; [simpl in L'; lia|]. rewrite cnode_nil. simpl bind.
  replace (cloop (configure_fuel (length (@nil datum))) m (drop_pops []) [] (flat_node 0 (Node v bs)) nm')
    with (Ok (flat_node 0 (Node v bs)) : outcome store) by reflexivity.
  simpl bind. unfold drop_empty_concepts. simpl troot. simpl tmeta. f_equal. f_equal.
  pose proof (Bn_all m vars (Node v bs) W [] [] (S (length (flat_node 0 (Node v bs))))) as B.
  simpl length in B. simpl app in B. rewrite app_nil_r in B. apply B. lia.
Qed.

Theorem wf_interpret_ok : forall m t, wf_layout_tree m t = true -> exists g, interpret m t = Ok g.
Proof.
  intros m [root meta] WF. unfold wf_layout_tree in WF. simpl troot in WF.
  apply andb_true_iff in WF. destruct WF as [WF _]. apply andb_true_iff in WF. destruct WF as [_ W].
  unfold interpret. simpl troot.
  destruct (interp_node_spec m (tree_vars root) root) as [S1 _].
  rewrite (S1 (wf_node_ok _ _ _ W)). simpl. eexists. reflexivity.
Qed.
