(** Lemmas about Impl/Constant.v (quote / evaluate / type) for property C18.
    Sections: quote output vs the STRING token; evaluate (quote x) = x; the
    declarative JSON number syntax and scan_number (soundness); what scan_once
    returns; fuel sufficiency; None / literals / typing; completeness for
    number literals; concrete examples. *)
From Coq Require Import List NArith Bool Lia ZArith.
From Coq Require Import ZifyClasses Zify.
From PM Require Import Impl.Lexer Impl.Constant.
Open Scope N_scope.
Ltac Zify.zify_post_hook ::= Z.to_euclidean_division_equations.

Lemma eqc_true : forall a b, eqc a b = true <-> a = b.
Proof. intros. unfold eqc. apply N.eqb_eq. Qed.
Lemma eqc_false : forall a b, eqc a b = false <-> a <> b.
Proof. intros. unfold eqc. apply N.eqb_neq. Qed.
Lemma eqc_refl : forall a, eqc a a = true.
Proof. intros. apply eqc_true. reflexivity. Qed.

(* the one-pass ends_with of Impl/Constant.v is Base.PyStr.endswith for a single character *)
Lemma ends_with_snoc : forall a d c, ends_with (a ++ [d]) c = eqc c d.
Proof.
  induction a as [|x a IH]; intros d c; [reflexivity|].
  cbn [app ends_with]. destruct (a ++ [d]) eqn:E; [destruct a; discriminate|]. rewrite <- E. apply IH.
Qed.
Lemma ends_with_endswith : forall s c, ends_with s c = endswith s [c].
Proof.
  intros s c. destruct s as [|x s'] using rev_ind; [reflexivity|].
  rewrite ends_with_snoc. unfold endswith. rewrite rev_app_distr. cbn [rev app startswith].
  destruct (rev s'); rewrite andb_true_r; reflexivity.
Qed.

(* ---------- quote output and the STRING token ---------- *)

Inductive esc_body : str -> Prop :=
| eb_nil : esc_body []
| eb_plain : forall c s, c <> 34 -> c <> 92 -> esc_body s -> esc_body (c :: s)
| eb_pair : forall d s, d <> 10 -> esc_body s -> esc_body (92 :: d :: s).

Lemma esc_body_app : forall a b, esc_body a -> esc_body b -> esc_body (a ++ b).
Proof.
  intros a b Ha Hb. induction Ha; simpl; auto.
  - apply eb_plain; auto.
  - apply eb_pair; auto.
Qed.

Lemma msb_esc_body : forall b r, esc_body b ->
  m_string_body (b ++ 34 :: r) = Some (b ++ [34], r).
Proof.
  intros b r Hb. induction Hb as [|c s H1 H2 Hs IH|d s H1 Hs IH].
  - simpl. reflexivity.
  - simpl. apply eqc_false in H1. apply eqc_false in H2. rewrite H1, H2, IH. reflexivity.
  - cbn [app m_string_body]. change (eqc 92 34) with false. change (eqc 92 92) with true.
    cbv iota. apply eqc_false in H1. rewrite H1, IH. reflexivity.
Qed.

Lemma hex_digit_ge : forall d, 48 <= hex_digit d.
Proof. intros d. unfold hex_digit. destruct (N.ltb_spec d 10); lia. Qed.
Lemma hex_digit_not92 : forall d, hex_digit d <> 92.
Proof. intros d. unfold hex_digit. destruct (N.ltb_spec d 10); lia. Qed.

Lemma u_escape_body : forall c, esc_body (u_escape c).
Proof.
  intros c. unfold u_escape. apply eb_pair; [discriminate|].
  repeat (apply eb_plain; [pose proof (hex_digit_ge (c / 4096)); pose proof (hex_digit_ge ((c / 256) mod 16));
                          pose proof (hex_digit_ge ((c / 16) mod 16)); pose proof (hex_digit_ge (c mod 16)); lia
                         | apply hex_digit_not92 | ]).
  apply eb_nil.
Qed.

Lemma esc_char_body : forall c, esc_body (esc_char c).
Proof.
  intros c. unfold esc_char.
  destruct (eqc c 34) eqn:E1. { apply eb_pair; [discriminate|apply eb_nil]. }
  destruct (eqc c 92) eqn:E2. { apply eb_pair; [discriminate|apply eb_nil]. }
  destruct (eqc c 10). { apply eb_pair; [discriminate|apply eb_nil]. }
  destruct (eqc c 13). { apply eb_pair; [discriminate|apply eb_nil]. }
  destruct (eqc c 9). { apply eb_pair; [discriminate|apply eb_nil]. }
  destruct (eqc c 8). { apply eb_pair; [discriminate|apply eb_nil]. }
  destruct (eqc c 12). { apply eb_pair; [discriminate|apply eb_nil]. }
  destruct (N.leb 32 c && N.leb c 126).
  { apply eb_plain; [apply eqc_false; exact E1|apply eqc_false; exact E2|apply eb_nil]. }
  destruct (N.ltb c 65536).
  - apply u_escape_body.
  - apply esc_body_app; apply u_escape_body.
Qed.

Lemma flat_map_esc_body : forall x, esc_body (flat_map esc_char x).
Proof.
  induction x as [|c x IH]; simpl.
  - apply eb_nil.
  - apply esc_body_app; [apply esc_char_body|exact IH].
Qed.

Lemma m_string_quote : forall x, m_string (quote_str x) = Some (quote_str x, []).
Proof.
  intros x. unfold quote_str, m_string. change (eqc 34 34) with true. cbv iota.
  rewrite msb_esc_body by apply flat_map_esc_body. reflexivity.
Qed.

Lemma first_match_quote : forall alts x, alts = PENMAN_ALTS \/ alts = TRIPLE_ALTS ->
  first_match alts (quote_str x) = Some (STRING, quote_str x, []).
Proof.
  intros alts x [H|H]; subst alts; unfold PENMAN_ALTS, TRIPLE_ALTS;
  cbn [first_match matcher_of];
  replace (m_comment (quote_str x)) with (@None (str * str)) by reflexivity;
  rewrite m_string_quote; reflexivity.
Qed.

Lemma lex_line_quote : forall alts ln x, alts = PENMAN_ALTS \/ alts = TRIPLE_ALTS ->
  lex_line alts ln (quote_str x) = [mkToken STRING (quote_str x) ln 0].
Proof.
  intros alts ln x H. unfold lex_line.
  remember (quote_str x) as q eqn:Hq.
  assert (Hne : exists c t, q = c :: t) by (subst q; unfold quote_str; eauto).
  destruct Hne as [c [t Hct]].
  cbn [lex_line_fuel]. rewrite Hct at 1. rewrite Hq at 1. rewrite (first_match_quote alts x H).
  rewrite <- Hq. f_equal.
  destruct (length q); reflexivity.
Qed.

(* no CR / LF in the output, so lex() sees one line *)
Definition no_break (c : N) : bool := negb (eqc c 10) && negb (eqc c 13).
Lemma split_lines_one : forall s, forallb no_break s = true -> split_lines s = [s].
Proof.
  induction s as [|c s IH]; intros H; simpl in *.
  - reflexivity.
  - apply andb_true_iff in H. destruct H as [Hc Hs]. unfold no_break in Hc.
    apply andb_true_iff in Hc. destruct Hc as [H10 H13].
    apply negb_true_iff in H10. apply negb_true_iff in H13. rewrite H10, H13.
    rewrite (IH Hs). reflexivity.
Qed.

Definition printable (c : N) : bool := N.leb 32 c && N.leb c 126.
Lemma hex_digit_printable : forall d, d < 16 -> printable (hex_digit d) = true.
Proof.
  intros d H. unfold printable, hex_digit. apply andb_true_iff.
  destruct (N.ltb_spec d 10); split; apply N.leb_le; lia.
Qed.
Lemma u_escape_printable : forall c, c < 65536 -> forallb printable (u_escape c) = true.
Proof.
  intros c H. unfold u_escape. cbn [forallb].
  rewrite !hex_digit_printable by lia. reflexivity.
Qed.
Lemma esc_char_printable : forall c, forallb printable (esc_char c) = true.
Proof.
  intros c. unfold esc_char.
  destruct (eqc c 34); [reflexivity|]. destruct (eqc c 92); [reflexivity|].
  destruct (eqc c 10); [reflexivity|]. destruct (eqc c 13); [reflexivity|].
  destruct (eqc c 9); [reflexivity|]. destruct (eqc c 8); [reflexivity|].
  destruct (eqc c 12); [reflexivity|].
  destruct (N.leb 32 c && N.leb c 126) eqn:E.
  { cbn [forallb]. unfold printable. rewrite E. reflexivity. }
  destruct (N.ltb_spec c 65536).
  - apply u_escape_printable; assumption.
  - rewrite forallb_app. rewrite !u_escape_printable by lia. reflexivity.
Qed.
Lemma quote_str_printable : forall x, forallb printable (quote_str x) = true.
Proof.
  intros x. unfold quote_str. cbn [forallb]. rewrite forallb_app.
  change (printable 34) with true. cbn [forallb andb].
  rewrite andb_true_r. induction x as [|c x IH]; simpl; [reflexivity|].
  rewrite forallb_app, esc_char_printable, IH. reflexivity.
Qed.
Lemma printable_no_break : forall s, forallb printable s = true -> forallb no_break s = true.
Proof.
  induction s as [|c s IH]; simpl; intros H; [reflexivity|].
  apply andb_true_iff in H. destruct H as [Hc Hs]. rewrite (IH Hs), andb_true_r.
  unfold printable in Hc. apply andb_true_iff in Hc. destruct Hc as [H1 H2].
  apply N.leb_le in H1. unfold no_break. apply andb_true_iff.
  split; apply negb_true_iff; apply eqc_false; lia.
Qed.

Lemma lex_str_quote : forall alts x, alts = PENMAN_ALTS \/ alts = TRIPLE_ALTS ->
  lex_str alts (quote_str x) = [mkToken STRING (quote_str x) 1 0].
Proof.
  intros alts x H. unfold lex_str, lex_lines.
  rewrite split_lines_one by (apply printable_no_break, quote_str_printable).
  cbn [lex_lines_from]. rewrite lex_line_quote by assumption. reflexivity.
Qed.

(* ---------- evaluate (quote x) = x ---------- *)

Definition scalar (c : N) : bool :=
  N.ltb c 1114112 && negb (N.leb 55296 c && N.leb c 57343).
Definition scalar_str (x : str) : Prop := forallb scalar x = true.

Lemma hex_val_digit : forall d, d < 16 -> hex_val (hex_digit d) = Some d.
Proof.
  intros d H. unfold hex_val, hex_digit, is_digit.
  destruct (N.ltb_spec d 10) as [Hd|Hd].
  - replace (N.leb 48 (48 + d)) with true by (symmetry; apply N.leb_le; lia).
    replace (N.leb (48 + d) 57) with true by (symmetry; apply N.leb_le; lia).
    cbn [andb]. f_equal. lia.
  - replace (N.leb (87 + d) 57) with false by (symmetry; apply N.leb_gt; lia).
    rewrite andb_false_r.
    replace (N.leb 97 (87 + d)) with true by (symmetry; apply N.leb_le; lia).
    replace (N.leb (87 + d) 102) with true by (symmetry; apply N.leb_le; lia).
    cbn [andb]. f_equal. lia.
Qed.

Lemma hex4_u_escape : forall c, c < 65536 ->
  hex4 (hex_digit (c / 4096)) (hex_digit ((c / 256) mod 16))
       (hex_digit ((c / 16) mod 16)) (hex_digit (c mod 16)) = Some c.
Proof.
  intros c H. unfold hex4. rewrite !hex_val_digit by lia. f_equal. lia.
Qed.

Lemma scan_str_u : forall h1 h2 h3 h4 r2,
  scan_str (92 :: 117 :: h1 :: h2 :: h3 :: h4 :: r2) =
  match hex4 h1 h2 h3 h4 with
  | None => None
  | Some u =>
      if is_high u then
        match r2 with
        | b :: v :: g1 :: g2 :: g3 :: g4 :: r3 =>
            if eqc b 92 && eqc v 117 then
              match hex4 g1 g2 g3 g4 with
              | None => None
              | Some u2 =>
                  if is_low u2 then scons (join_surrogates u u2) (scan_str r3)
                  else scons u (scan_str r2)
              end
            else scons u (scan_str r2)
        | _ => scons u (scan_str r2)
        end
      else scons u (scan_str r2)
  end.
Proof. reflexivity. Qed.

Lemma scan_str_simple : forall e d k, e <> 117 -> simple_escape e = Some d ->
  scan_str (92 :: e :: k) = scons d (scan_str k).
Proof.
  intros e d k He Hd. cbn [scan_str]. change (eqc 92 34) with false. change (eqc 92 92) with true.
  cbv iota. apply eqc_false in He. rewrite He, Hd. reflexivity.
Qed.

Lemma scan_str_u_bmp : forall c k, c < 65536 -> is_high c = false ->
  scan_str (u_escape c ++ k) = scons c (scan_str k).
Proof.
  intros c k Hc Hh. unfold u_escape. cbn [app]. rewrite scan_str_u.
  rewrite hex4_u_escape by assumption. rewrite Hh. reflexivity.
Qed.

Lemma lor_shift : forall h l, l < 1024 -> N.lor (N.shiftl h 10) l = h * 1024 + l.
Proof.
  intros h l Hl. rewrite N.shiftl_mul_pow2. change (2 ^ 10) with 1024.
  rewrite <- N.lxor_lor, <- N.add_nocarry_lxor; try reflexivity.
  - apply N.bits_inj_0. intros n. rewrite N.land_spec.
    destruct (N.ltb_spec n 10) as [Hn|Hn].
    + change 1024 with (2 ^ 10). rewrite N.mul_pow2_bits_low by assumption. reflexivity.
    + replace (N.testbit l n) with false; [apply andb_false_r|].
      symmetry. destruct (N.eq_dec l 0) as [->|Hl0]; [apply N.bits_0|].
      apply N.bits_above_log2. apply N.lt_le_trans with 10; [|assumption].
      apply N.log2_lt_pow2; [lia|]. change (2 ^ 10) with 1024. assumption.
  - apply N.bits_inj_0. intros n. rewrite N.land_spec.
    destruct (N.ltb_spec n 10) as [Hn|Hn].
    + change 1024 with (2 ^ 10). rewrite N.mul_pow2_bits_low by assumption. reflexivity.
    + replace (N.testbit l n) with false; [apply andb_false_r|].
      symmetry. destruct (N.eq_dec l 0) as [->|Hl0]; [apply N.bits_0|].
      apply N.bits_above_log2. apply N.lt_le_trans with 10; [|assumption].
      apply N.log2_lt_pow2; [lia|]. change (2 ^ 10) with 1024. assumption.
Qed.

Lemma scan_str_u_astral : forall c k, 65536 <= c -> c < 1114112 ->
  scan_str ((u_escape (55296 + ((c - 65536) / 1024) mod 1024) ++ u_escape (56320 + (c - 65536) mod 1024)) ++ k)
  = scons c (scan_str k).
Proof.
  intros c k H1 H2.
  set (hi := 55296 + ((c - 65536) / 1024) mod 1024).
  set (lo := 56320 + (c - 65536) mod 1024).
  assert (Hhi : 55296 <= hi /\ hi <= 56319) by (unfold hi; lia).
  assert (Hlo : 56320 <= lo /\ lo <= 57343) by (unfold lo; lia).
  rewrite <- app_assoc. unfold u_escape at 1. cbn [app]. rewrite scan_str_u.
  rewrite hex4_u_escape by lia.
  replace (is_high hi) with true
    by (symmetry; unfold is_high; apply andb_true_iff; split; apply N.leb_le; lia).
  unfold u_escape. cbn [app]. change (eqc 92 92 && eqc 117 117) with true. cbv iota.
  rewrite hex4_u_escape by lia.
  replace (is_low lo) with true
    by (symmetry; unfold is_low; apply andb_true_iff; split; apply N.leb_le; lia).
  replace (join_surrogates hi lo) with c; [reflexivity|].
  unfold join_surrogates. rewrite lor_shift by lia. unfold hi, lo. lia.
Qed.

Lemma scan_str_esc_char : forall c k, scalar c = true ->
  scan_str (esc_char c ++ k) = scons c (scan_str k).
Proof.
  intros c k Hs. unfold scalar in Hs. apply andb_true_iff in Hs. destruct Hs as [Hlt Hns].
  apply N.ltb_lt in Hlt. apply negb_true_iff in Hns.
  unfold esc_char.
  destruct (eqc c 34) eqn:E1. { apply eqc_true in E1. subst c. apply scan_str_simple; [discriminate|reflexivity]. }
  destruct (eqc c 92) eqn:E2. { apply eqc_true in E2. subst c. apply scan_str_simple; [discriminate|reflexivity]. }
  destruct (eqc c 10) eqn:E3. { apply eqc_true in E3. subst c. apply scan_str_simple; [discriminate|reflexivity]. }
  destruct (eqc c 13) eqn:E4. { apply eqc_true in E4. subst c. apply scan_str_simple; [discriminate|reflexivity]. }
  destruct (eqc c 9) eqn:E5. { apply eqc_true in E5. subst c. apply scan_str_simple; [discriminate|reflexivity]. }
  destruct (eqc c 8) eqn:E6. { apply eqc_true in E6. subst c. apply scan_str_simple; [discriminate|reflexivity]. }
  destruct (eqc c 12) eqn:E7. { apply eqc_true in E7. subst c. apply scan_str_simple; [discriminate|reflexivity]. }
  destruct (N.leb 32 c && N.leb c 126) eqn:E8.
  { apply andb_true_iff in E8. destruct E8 as [Ha Hb]. apply N.leb_le in Ha.
    cbn [app scan_str]. rewrite E1, E2.
    replace (N.ltb c 32) with false by (symmetry; apply N.ltb_ge; assumption). reflexivity. }
  destruct (N.ltb_spec c 65536) as [Hc|Hc].
  - apply scan_str_u_bmp; [assumption|].
    unfold is_high. apply andb_false_iff.
    apply andb_false_iff in Hns. destruct Hns as [Hn|Hn].
    + left. exact Hn.
    + right. apply N.leb_gt in Hn. apply N.leb_gt. lia.
  - apply scan_str_u_astral; assumption.
Qed.

Lemma scan_str_quote_body : forall x rest, scalar_str x ->
  scan_str (flat_map esc_char x ++ 34 :: rest) = Some (x, rest).
Proof.
  unfold scalar_str. induction x as [|c x IH]; intros rest H.
  - reflexivity.
  - cbn [forallb] in H. apply andb_true_iff in H. destruct H as [Hc Hx].
    cbn [flat_map]. rewrite <- app_assoc. rewrite scan_str_esc_char by assumption.
    rewrite IH by assumption. reflexivity.
Qed.

Lemma endswith_snoc : forall a c, endswith (a ++ [c]) [c] = true.
Proof.
  intros a c. unfold endswith. rewrite rev_app_distr. cbn [rev app startswith].
  rewrite eqc_refl. destruct (rev a); reflexivity.
Qed.

Lemma startswith_nil : forall s, startswith s [] = true.
Proof. destruct s; reflexivity. Qed.

Lemma quote_str_snoc : forall x, quote_str x = (34 :: flat_map esc_char x) ++ [34].
Proof. reflexivity. Qed.

Lemma evaluate_quote : forall x, scalar_str x -> evaluate (Some (quote_str x)) = RStr x.
Proof.
  intros x Hx.
  assert (Hend : ends_with (quote_str x) 34 = true)
    by (rewrite ends_with_endswith, quote_str_snoc; apply endswith_snoc).
  unfold evaluate. unfold quote_str at 1. 
  fold (quote_str x). rewrite Hend.
  unfold quote_str. cbn [startswith]. rewrite startswith_nil. change (eqc 34 34) with true. cbn [andb xorb].
  replace (str_in _ _) with false by reflexivity.
  unfold json_loads. cbn [startswith]. change (eqc 65279 34) with false. cbn [andb].
  cbn [skip_ws]. change (is_jws 34) with false. cbv iota.
  cbn [scan_once]. change (eqc 34 34) with true. cbv iota.
  rewrite scan_str_quote_body by assumption. reflexivity.
Qed.

Lemma type_quote : forall x, scalar_str x -> ctype (Some (quote_str x)) = TyString.
Proof.
  intros x Hx. unfold ctype. rewrite evaluate_quote by assumption.
  rewrite ends_with_endswith. rewrite quote_str_snoc at 2. rewrite endswith_snoc.
  unfold quote_str. cbn [startswith]. rewrite startswith_nil. reflexivity.
Qed.

(* ---------- declarative JSON number syntax (independent of the recogniser) ---------- *)

Definition digit (c : N) : Prop := 48 <= c /\ c <= 57.
Definition digits1 (s : str) : Prop := s <> [] /\ Forall digit s.   (* one or more ASCII digits *)

Inductive json_int : str -> Prop :=
| ji_zero : json_int [48]
| ji_pos : forall c ds, 49 <= c -> c <= 57 -> Forall digit ds -> json_int (c :: ds).
Inductive json_frac : str -> Prop :=
| jf_some : forall ds, digits1 ds -> json_frac (46 :: ds).
Inductive json_exp : str -> Prop :=
| je_some : forall e sg ds, e = 101 \/ e = 69 -> sg = [] \/ sg = [43] \/ sg = [45] ->
    digits1 ds -> json_exp (e :: sg ++ ds).
Definition opt (P : str -> Prop) (s : str) : Prop := s = [] \/ P s.
Definition sign (s : str) : Prop := s = [] \/ s = [45].

(* integer literal: optional minus, then 0 or a digit 1-9 followed by digits *)
Definition json_integer (s : str) : Prop :=
  exists sg i, s = sg ++ i /\ sign sg /\ json_int i.
(* number literal with a fraction and/or an exponent *)
Definition json_float (s : str) : Prop :=
  exists sg i f e, s = sg ++ i ++ f ++ e /\ sign sg /\ json_int i /\
                   opt json_frac f /\ opt json_exp e /\ (f <> [] \/ e <> []).
Definition json_number (s : str) : Prop := json_integer s \/ json_float s.

Definition strip_json_ws (s : str) : str := rev (skip_ws (rev (skip_ws s))).

(* ---------- generic helpers ---------- *)

Lemma span_spec : forall p s a b, span p s = (a, b) -> s = a ++ b /\ Forall (fun c => p c = true) a.
Proof.
  induction s as [|c s IH]; intros a b H; simpl in H.
  - inversion H. split; [reflexivity|constructor].
  - destruct (p c) eqn:Hp.
    + destruct (span p s) as [a' b'] eqn:Hs. inversion H; subst.
      destruct (IH a' b eq_refl) as [H1 H2]. split; [simpl; f_equal; exact H1|constructor; assumption].
    + inversion H. split; [reflexivity|constructor].
Qed.

Lemma is_digit_digit : forall c, is_digit c = true -> digit c.
Proof.
  intros c H. unfold is_digit in H. apply andb_true_iff in H. destruct H as [H1 H2].
  apply N.leb_le in H1. apply N.leb_le in H2. split; assumption.
Qed.
Lemma Forall_is_digit : forall a, Forall (fun c => is_digit c = true) a -> Forall digit a.
Proof. intros a H. eapply Forall_impl; [|exact H]. intros c Hc. apply is_digit_digit. exact Hc. Qed.

Lemma is_jws_digit : forall c, digit c -> is_jws c = false.
Proof.
  intros c [H1 H2]. unfold is_jws, isin. cbn [existsb].
  repeat (rewrite (proj2 (eqc_false c _)) by lia). reflexivity.
Qed.

Lemma skip_ws_all : forall s, skip_ws s = [] -> forallb is_jws s = true.
Proof.
  induction s as [|c s IH]; simpl; intros H; [reflexivity|].
  destruct (is_jws c); [apply IH; exact H|discriminate].
Qed.
Lemma skip_ws_app_ws : forall a b, forallb is_jws a = true -> skip_ws (a ++ b) = skip_ws b.
Proof.
  induction a as [|c a IH]; simpl; intros b H; [reflexivity|].
  apply andb_true_iff in H. destruct H as [Hc Ha]. rewrite Hc. apply IH. exact Ha.
Qed.
Lemma forallb_rev : forall (p : N -> bool) s, forallb p (rev s) = forallb p s.
Proof.
  intros p. induction s as [|c s IH]; simpl; [reflexivity|].
  rewrite forallb_app, IH. simpl. rewrite andb_true_r. apply andb_comm.
Qed.
Lemma skip_ws_length : forall s, (length (skip_ws s) <= length s)%nat.
Proof. induction s as [|c s IH]; simpl; [lia|]. destruct (is_jws c); simpl; lia. Qed.

(* s = p ++ ws where p ends with a non-blank: stripping at the right gives p *)
Lemma strip_right : forall p d rest, is_jws d = false -> skip_ws rest = [] ->
  rev (skip_ws (rev ((p ++ [d]) ++ rest))) = p ++ [d].
Proof.
  intros p d rest Hd Hr. rewrite rev_app_distr.
  rewrite skip_ws_app_ws by (rewrite forallb_rev; apply skip_ws_all; exact Hr).
  rewrite rev_app_distr. cbn [rev app skip_ws]. rewrite Hd.
  change (d :: rev p) with (rev [d] ++ rev p). rewrite <- rev_app_distr. apply rev_involutive.
Qed.

(* ---------- scan_number against the declarative syntax ---------- *)

Lemma digits1_last : forall ds, digits1 ds -> exists p d, ds = p ++ [d] /\ digit d.
Proof.
  intros ds [Hne Hall]. destruct (exists_last Hne) as [p [d Hpd]]. exists p, d. split; [exact Hpd|].
  subst ds. apply Forall_app in Hall. destruct Hall as [_ Hd]. inversion Hd; assumption.
Qed.
Lemma Forall_digit_last : forall c ds, digit c -> Forall digit ds -> exists p d, c :: ds = p ++ [d] /\ digit d.
Proof.
  intros c ds Hc Hds. apply digits1_last. split; [discriminate|constructor; assumption].
Qed.

Lemma scan_int_spec : forall s nd r, scan_int s = Some (nd, r) ->
  exists i, s = i ++ r /\ json_int i /\ nd = length i.
Proof.
  intros s nd r H. unfold scan_int in H. destruct s as [|c s]; [discriminate|].
  destruct (is_digit19 c) eqn:E.
  - destruct (span is_digit s) as [ds r'] eqn:Hs. inversion H; subst.
    apply span_spec in Hs. destruct Hs as [Hs Hall]. exists (c :: ds).
    unfold is_digit19 in E. apply andb_true_iff in E. destruct E as [E1 E2].
    apply N.leb_le in E1. apply N.leb_le in E2.
    split; [simpl; f_equal; exact Hs|]. split; [|reflexivity].
    apply ji_pos; [assumption|assumption|apply Forall_is_digit; exact Hall].
  - destruct (eqc c 48) eqn:E0; [|discriminate]. apply eqc_true in E0. inversion H; subst.
    exists [48]. split; [reflexivity|]. split; [apply ji_zero|reflexivity].
Qed.

Lemma scan_frac_spec : forall s b r, scan_frac s = (b, r) ->
  exists f, s = f ++ r /\ (if b then json_frac f else f = []).
Proof.
  intros s b r H. unfold scan_frac in H. destruct s as [|d s]; [inversion H; exists []; split; reflexivity|].
  destruct (eqc d 46) eqn:E.
  - apply eqc_true in E. subst d. destruct (span is_digit s) as [ds r'] eqn:Hs.
    apply span_spec in Hs. destruct Hs as [Hs Hall].
    destruct ds as [|x ds].
    + inversion H; subst. exists []. split; reflexivity.
    + inversion H; subst. exists (46 :: x :: ds). split; [reflexivity|].
      apply jf_some. split; [discriminate|apply Forall_is_digit; exact Hall].
  - inversion H; subst. exists []. split; reflexivity.
Qed.

Lemma scan_exp_spec : forall s b r, scan_exp s = (b, r) ->
  exists e, s = e ++ r /\ (if b then json_exp e else e = []).
Proof.
  intros s b r H. unfold scan_exp in H. destruct s as [|e s]; [inversion H; exists []; split; reflexivity|].
  destruct (eqc e 101 || eqc e 69) eqn:E.
  - assert (He : e = 101 \/ e = 69).
    { apply orb_true_iff in E. destruct E as [E|E]; apply eqc_true in E; auto. }
    set (r' := match s with sg :: t => if eqc sg 45 || eqc sg 43 then t else s | [] => s end) in *.
    assert (Hsg : exists sg, s = sg ++ r' /\ (sg = [] \/ sg = [43] \/ sg = [45])).
    { unfold r'. destruct s as [|sg t]; [exists []; auto|].
      destruct (eqc sg 45) eqn:E45; [apply eqc_true in E45; subst; exists [45]; auto|].
      destruct (eqc sg 43) eqn:E43; [apply eqc_true in E43; subst; exists [43]; auto|].
      exists []. auto. }
    destruct Hsg as [sg [Hsg1 Hsg2]].
    destruct (span is_digit r') as [ds r''] eqn:Hs.
    apply span_spec in Hs. destruct Hs as [Hs Hall].
    destruct ds as [|x ds].
    + injection H as Hb Hr. subst b r. exists []. split; reflexivity.
    + injection H as Hb Hr. subst b r''. exists (e :: sg ++ x :: ds). split.
      * simpl. f_equal. rewrite <- app_assoc. rewrite <- Hs. exact Hsg1.
      * apply je_some; [exact He|exact Hsg2|]. split; [discriminate|apply Forall_is_digit; exact Hall].
  - inversion H; subst. exists []. split; reflexivity.
Qed.

Lemma json_int_last : forall i, json_int i -> exists p d, i = p ++ [d] /\ digit d.
Proof.
  intros i H. inversion H; subst.
  - exists [], 48. split; [reflexivity|unfold digit; lia].
  - apply Forall_digit_last; [unfold digit; lia|assumption].
Qed.
Lemma json_frac_last : forall f, json_frac f -> exists p d, f = p ++ [d] /\ digit d.
Proof.
  intros f H. inversion H; subst. destruct (digits1_last ds H0) as [p [d [Hp Hd]]].
  exists (46 :: p), d. split; [simpl; f_equal; exact Hp|exact Hd].
Qed.
Lemma json_exp_last : forall e, json_exp e -> exists p d, e = p ++ [d] /\ digit d.
Proof.
  intros e H. inversion H; subst. destruct (digits1_last ds H2) as [p [d [Hp Hd]]].
  exists (e0 :: sg ++ p), d. split; [simpl; f_equal; rewrite <- app_assoc; f_equal; exact Hp|exact Hd].
Qed.

(* what scan_number consumed is a JSON number, classified correctly, and ends with a digit *)
Lemma scan_number_spec : forall s isf nd r, scan_number s = Some (isf, nd, r) ->
  exists p, s = p ++ r /\ (if isf then json_float p else json_integer p) /\
            (exists p' d, p = p' ++ [d] /\ digit d) /\
            (isf = false -> (nd <= length p)%nat).
Proof.
  intros s isf nd r H. unfold scan_number in H.
  set (s1 := match s with c :: r0 => if eqc c 45 then r0 else s | [] => s end) in *.
  assert (Hsg : exists sg, s = sg ++ s1 /\ sign sg).
  { unfold s1. destruct s as [|c t]; [exists []; split; [reflexivity|left; reflexivity]|].
    destruct (eqc c 45) eqn:E; [apply eqc_true in E; subst; exists [45]; split; [reflexivity|right; reflexivity]|].
    exists []. split; [reflexivity|left; reflexivity]. }
  destruct Hsg as [sg [Hs Hsg]].
  destruct (scan_int s1) as [[nd' r1]|] eqn:Hi; [|discriminate].
  destruct (scan_frac r1) as [f1 r2] eqn:Hf. destruct (scan_exp r2) as [f2 r3] eqn:He.
  inversion H; subst isf nd r3. clear H.
  apply scan_int_spec in Hi. destruct Hi as [i [Hi1 [Hi2 Hi3]]].
  apply scan_frac_spec in Hf. destruct Hf as [f [Hf1 Hf2]].
  apply scan_exp_spec in He. destruct He as [e [He1 He2]].
  exists (sg ++ i ++ f ++ e). split.
  { rewrite Hs, Hi1, Hf1, He1. rewrite <- !app_assoc. reflexivity. }
  destruct (json_int_last i Hi2) as [pi [di [Hpi Hdi]]].
  destruct f1, f2; cbn [orb].
  - split; [|split].
    + exists sg, i, f, e. repeat split; auto. right; exact Hf2. right; exact He2.
      left. inversion Hf2; discriminate.
    + destruct (json_exp_last e He2) as [p [d [Hp Hd]]]. exists (sg ++ i ++ f ++ p), d.
      split; [rewrite Hp; rewrite <- !app_assoc; reflexivity|exact Hd].
    + discriminate.
  - subst e. split; [|split].
    + exists sg, i, f, []. repeat split; auto. right; exact Hf2. left; reflexivity.
      left. inversion Hf2; discriminate.
    + destruct (json_frac_last f Hf2) as [p [d [Hp Hd]]]. exists (sg ++ i ++ p), d.
      split; [rewrite Hp; rewrite app_nil_r; rewrite <- !app_assoc; reflexivity|exact Hd].
    + discriminate.
  - subst f. split; [|split].
    + exists sg, i, [], e. repeat split; auto. left; reflexivity. right; exact He2.
      right. inversion He2; discriminate.
    + destruct (json_exp_last e He2) as [p [d [Hp Hd]]]. exists (sg ++ i ++ p), d.
      split; [rewrite Hp; cbn [app]; rewrite <- !app_assoc; reflexivity|exact Hd].
    + discriminate.
  - subst f e. split; [|split].
    + exists sg, i. split; [rewrite !app_nil_r; reflexivity|]. split; assumption.
    + exists (sg ++ pi), di. split; [rewrite Hpi; rewrite !app_nil_r; rewrite <- app_assoc; reflexivity|exact Hdi].
    + intros _. rewrite !app_length. lia.
Qed.

(* ---------- what scan_once can return ---------- *)

Lemma arr_loop_container : forall scan n s v r, arr_loop scan n s = JOk v r -> v = JContainer.
Proof.
  intros scan. induction n as [|n IH]; intros s v r H; simpl in H; [discriminate|].
  destruct (scan s) as [v1 r1| | |]; try discriminate.
  destruct (skip_ws r1) as [|d r2]; [discriminate|].
  destruct (eqc d 93); [inversion H; reflexivity|].
  destruct (eqc d 44); [eapply IH; exact H|discriminate].
Qed.
Lemma obj_loop_container : forall scan n s v r, obj_loop scan n s = JOk v r -> v = JContainer.
Proof.
  intros scan. induction n as [|n IH]; intros s v r H; simpl in H; [discriminate|].
  destruct s as [|c s]; [discriminate|]. destruct (eqc c 34); [|discriminate].
  destruct (scan_str s) as [[k r1]|]; [|discriminate].
  destruct (skip_ws r1) as [|d r2]; [discriminate|]. destruct (eqc d 58); [|discriminate].
  destruct (scan (skip_ws r2)) as [v3 r3| | |]; try discriminate.
  destruct (skip_ws r3) as [|e r4]; [discriminate|].
  destruct (eqc e 125); [inversion H; reflexivity|].
  destruct (eqc e 44); [eapply IH; exact H|discriminate].
Qed.

Lemma scan_once_number : forall f s v r, scan_once f s = JOk v r -> v = JInt \/ v = JFloat ->
  exists nd, scan_number s = Some (match v with JFloat => true | _ => false end, nd, r).
Proof.
  intros f s v r H Hv. destruct f as [|f]; [discriminate|]. cbn [scan_once] in H.
  destruct s as [|c s]; [discriminate|].
  destruct (eqc c 34).
  { destruct (scan_str s) as [[a b]|]; [inversion H; subst; destruct Hv; discriminate|discriminate]. }
  destruct (eqc c 123).
  { destruct (skip_ws s) as [|d r1]; [discriminate|]. destruct (eqc d 125).
    - inversion H; subst; destruct Hv; discriminate.
    - apply obj_loop_container in H. subst; destruct Hv; discriminate. }
  destruct (eqc c 91).
  { destruct (skip_ws s) as [|d r1]; [discriminate|]. destruct (eqc d 93).
    - inversion H; subst; destruct Hv; discriminate.
    - apply arr_loop_container in H. subst; destruct Hv; discriminate. }
  destruct (startswith (c :: s) NULL_S); [inversion H; subst; destruct Hv; discriminate|].
  destruct (startswith (c :: s) TRUE_S); [inversion H; subst; destruct Hv; discriminate|].
  destruct (startswith (c :: s) FALSE_S); [inversion H; subst; destruct Hv; discriminate|].
  destruct (startswith (c :: s) NAN_S); [inversion H; subst; destruct Hv; discriminate|].
  destruct (startswith (c :: s) INF_S); [inversion H; subst; destruct Hv; discriminate|].
  destruct (startswith (c :: s) NINF_S); [inversion H; subst; destruct Hv; discriminate|].
  destruct (scan_number (c :: s)) as [[[isf nd] rest]|]; [|discriminate].
  destruct isf.
  - inversion H; subst. exists nd. reflexivity.
  - destruct (N.ltb INT_MAX_STR_DIGITS (N.of_nat nd)); [discriminate|].
    inversion H; subst. exists nd. reflexivity.
Qed.

Lemma json_loads_inv : forall s v r, json_loads s = JOk v r ->
  exists rest, scan_once (S (length s)) (skip_ws s) = JOk v rest /\ skip_ws rest = [].
Proof.
  intros s v r H. unfold json_loads in H. destruct (startswith s [65279]); [discriminate|].
  destruct (scan_once (S (length s)) (skip_ws s)) as [v' rest| | |]; try discriminate.
  destruct (skip_ws rest) eqn:Hr; [|discriminate]. inversion H; subst. exists rest. split; [reflexivity|exact Hr].
Qed.

Lemma evaluate_number_inv : forall s, evaluate (Some s) = RInt \/ evaluate (Some s) = RFloat ->
  exists v r, json_loads s = JOk v r /\ (v = JInt \/ v = JFloat) /\
              evaluate (Some s) = match v with JFloat => RFloat | _ => RInt end.
Proof.
  intros s H. unfold evaluate in *. destruct s as [|c s]; [destruct H; discriminate|].
  destruct (xorb _ _); [destruct H; discriminate|].
  destruct (str_in _ _); [destruct H; discriminate|].
  destruct (json_loads (c :: s)) as [[]r| | |]; try (destruct H; discriminate).
  - exists JInt, r. auto.
  - exists JFloat, r. auto.
Qed.

Lemma number_only_for_json_number : forall s,
  (evaluate (Some s) = RInt -> json_integer (strip_json_ws s)) /\
  (evaluate (Some s) = RFloat -> json_float (strip_json_ws s)).
Proof.
  intros s.
  assert (Hmain : forall v r, json_loads s = JOk v r -> v = JInt \/ v = JFloat ->
            if match v with JFloat => true | _ => false end
            then json_float (strip_json_ws s) else json_integer (strip_json_ws s)).
  { intros v r Hl Hv. apply json_loads_inv in Hl. destruct Hl as [rest [Hso Hrest]].
    destruct (scan_once_number _ _ _ _ Hso Hv) as [nd Hn].
    apply scan_number_spec in Hn. destruct Hn as [p [Hp [Hsyn [[p' [d [Hpd Hd]]] _]]]].
    unfold strip_json_ws. rewrite Hp. rewrite Hpd.
    rewrite strip_right; [|apply is_jws_digit; exact Hd|exact Hrest].
    rewrite <- Hpd. exact Hsyn. }
  split; intros H.
  - destruct (evaluate_number_inv s (or_introl H)) as [v [r [Hl [Hv He]]]].
    specialize (Hmain v r Hl Hv). destruct v; try (destruct Hv; discriminate).
    + exact Hmain.
    + rewrite H in He. discriminate.
  - destruct (evaluate_number_inv s (or_intror H)) as [v [r [Hl [Hv He]]]].
    specialize (Hmain v r Hl Hv). destruct v; try (destruct Hv; discriminate).
    + rewrite H in He. discriminate.
    + exact Hmain.
Qed.

(* ---------- fuel sufficiency ---------- *)

Lemma scons_inv : forall c o v r, scons c o = Some (v, r) -> exists v', o = Some (v', r).
Proof. intros c [[a b]|] v r H; simpl in H; [|discriminate]. inversion H; subst. eauto. Qed.

Lemma scan_str_len : forall n s v r, (length s <= n)%nat -> scan_str s = Some (v, r) ->
  (length r < length s)%nat.
Proof.
  induction n as [|n IH]; intros s v r Hlen H.
  - destruct s; [discriminate|simpl in Hlen; lia].
  - destruct s as [|c s1]; [discriminate|]. cbn [scan_str] in H. cbn [length] in *.
    destruct (eqc c 34). { inversion H; subst. lia. }
    destruct (eqc c 92).
    + destruct s1 as [|e r1]; [discriminate|]. cbn [length] in *.
      destruct (eqc e 117).
      * destruct r1 as [|h1 [|h2 [|h3 [|h4 r2]]]]; try discriminate. cbn [length] in *.
        destruct (hex4 h1 h2 h3 h4) as [u|]; [|discriminate].
        assert (Hr2 : forall o, scons o (scan_str r2) = Some (v, r) -> (length r < length r2)%nat).
        { intros o Ho. apply scons_inv in Ho. destruct Ho as [v' Ho]. apply IH in Ho; lia. }
        destruct (is_high u); [|apply Hr2 in H; lia].
        destruct r2 as [|b [|w [|g1 [|g2 [|g3 [|g4 r3]]]]]]; try (apply Hr2 in H; cbn [length] in *; lia).
        destruct (eqc b 92 && eqc w 117); [|apply Hr2 in H; cbn [length] in *; lia].
        destruct (hex4 g1 g2 g3 g4) as [u2|]; [|discriminate].
        destruct (is_low u2); [|apply Hr2 in H; cbn [length] in *; lia].
        apply scons_inv in H. destruct H as [v' H]. apply IH in H; cbn [length] in *; lia.
      * destruct (simple_escape e); [|discriminate].
        apply scons_inv in H. destruct H as [v' H]. apply IH in H; lia.
    + destruct (N.ltb c 32); [discriminate|].
      apply scons_inv in H. destruct H as [v' H]. apply IH in H; lia.
Qed.

Lemma scan_number_len : forall s isf nd r, scan_number s = Some (isf, nd, r) ->
  (length r < length s)%nat.
Proof.
  intros s isf nd r H. apply scan_number_spec in H.
  destruct H as [p [Hp [_ [[p' [d [Hpd _]]] _]]]]. subst s p. rewrite !app_length. simpl. lia.
Qed.

Definition good (scan : str -> jres) (m : nat) : Prop :=
  forall s, (length s < m)%nat ->
    scan s <> JFuel /\ forall v r, scan s = JOk v r -> (length r < length s)%nat.

Lemma arr_loop_good : forall scan m, good scan m -> forall n s,
  (length s < n)%nat -> (length s < m)%nat ->
  arr_loop scan n s <> JFuel /\ forall v r, arr_loop scan n s = JOk v r -> (length r < length s)%nat.
Proof.
  intros scan m Hg. induction n as [|n IH]; intros s Hn Hm; [lia|].
  cbn [arr_loop]. destruct (Hg s Hm) as [Hnf Hok].
  destruct (scan s) as [v1 r1| | |] eqn:Hs; try (split; [discriminate|intros; discriminate]).
  - specialize (Hok v1 r1 eq_refl). pose proof (skip_ws_length r1) as Hsk.
    destruct (skip_ws r1) as [|d r2]; [split; [discriminate|intros; discriminate]|].
    cbn [length] in Hsk.
    destruct (eqc d 93). { split; [discriminate|]. intros v r H. inversion H; subst. lia. }
    destruct (eqc d 44); [|split; [discriminate|intros; discriminate]].
    pose proof (skip_ws_length r2) as Hsk2.
    destruct (IH (skip_ws r2)) as [H1 H2]; [lia|lia|].
    split; [exact H1|]. intros v r H. apply H2 in H. lia.
  - contradiction.
Qed.

Lemma obj_loop_good : forall scan m, good scan m -> forall n s,
  (length s < n)%nat -> (length s < m)%nat ->
  obj_loop scan n s <> JFuel /\ forall v r, obj_loop scan n s = JOk v r -> (length r < length s)%nat.
Proof.
  intros scan m Hg. induction n as [|n IH]; intros s Hn Hm; [lia|].
  cbn [obj_loop].
  destruct s as [|c s]; [split; [discriminate|intros; discriminate]|].
  destruct (eqc c 34); [|split; [discriminate|intros; discriminate]].
  destruct (scan_str s) as [[k r1]|] eqn:Hk; [|split; [discriminate|intros; discriminate]].
  apply (scan_str_len (length s)) in Hk; [|lia].
  pose proof (skip_ws_length r1) as Hsk1.
  destruct (skip_ws r1) as [|d r2]; [split; [discriminate|intros; discriminate]|].
  destruct (eqc d 58); [|split; [discriminate|intros; discriminate]].
  pose proof (skip_ws_length r2) as Hsk2. cbn [length] in *.
  destruct (Hg (skip_ws r2)) as [Hnf Hok]; [lia|].
  destruct (scan (skip_ws r2)) as [v3 r3| | |] eqn:Hs; try (split; [discriminate|intros; discriminate]).
  - specialize (Hok v3 r3 eq_refl). pose proof (skip_ws_length r3) as Hsk3.
    destruct (skip_ws r3) as [|e r4]; [split; [discriminate|intros; discriminate]|].
    cbn [length] in *.
    destruct (eqc e 125). { split; [discriminate|]. intros v r H. inversion H; subst. lia. }
    destruct (eqc e 44); [|split; [discriminate|intros; discriminate]].
    pose proof (skip_ws_length r4) as Hsk4.
    destruct (IH (skip_ws r4)) as [H1 H2]; [lia|lia|].
    split; [exact H1|]. intros v r H. apply H2 in H. lia.
  - contradiction.
Qed.

Lemma startswith_length : forall s p, startswith s p = true -> (length p <= length s)%nat.
Proof.
  induction s as [|c s IH]; intros p H; destruct p as [|d p]; simpl in *; try lia; try discriminate.
  apply andb_true_iff in H. destruct H as [_ H]. apply IH in H. lia.
Qed.

Lemma scan_once_good : forall f, good (scan_once f) f.
Proof.
  induction f as [|f IH]; intros s Hlen; [lia|].
  cbn [scan_once].
  destruct s as [|c s]; [split; [discriminate|intros; discriminate]|]. cbn [length] in Hlen.
  destruct (eqc c 34).
  { destruct (scan_str s) as [[a b]|] eqn:Hs; [|split; [discriminate|intros; discriminate]].
    apply (scan_str_len (length s)) in Hs; [|lia].
    split; [discriminate|]. intros v r H. inversion H; subst. cbn [length]. lia. }
  destruct (eqc c 123).
  { pose proof (skip_ws_length s) as Hsk.
    destruct (skip_ws s) as [|d r1] eqn:Hss; [split; [discriminate|intros; discriminate]|].
    destruct (eqc d 125).
    - split; [discriminate|]. intros v r H. inversion H; subst. cbn [length] in *. lia.
    - destruct (obj_loop_good _ _ IH f (d :: r1)) as [H1 H2]; [lia|lia|].
      split; [exact H1|]. intros v r H. apply H2 in H. cbn [length] in *. lia. }
  destruct (eqc c 91).
  { pose proof (skip_ws_length s) as Hsk.
    destruct (skip_ws s) as [|d r1] eqn:Hss; [split; [discriminate|intros; discriminate]|].
    destruct (eqc d 93).
    - split; [discriminate|]. intros v r H. inversion H; subst. cbn [length] in *. lia.
    - destruct (arr_loop_good _ _ IH f (d :: r1)) as [H1 H2]; [lia|lia|].
      split; [exact H1|]. intros v r H. apply H2 in H. cbn [length] in *. lia. }
  assert (Hskip : forall k p, startswith (c :: s) p = true -> length p = k -> (0 < k)%nat ->
            (length (skipn k (c :: s)) < length (c :: s))%nat).
  { intros k p Hp Hk Hpos. apply startswith_length in Hp. rewrite skipn_length. cbn [length] in *. lia. }
  destruct (startswith (c :: s) NULL_S) eqn:E1.
  { split; [discriminate|]. intros v r H. injection H as Hv Hr. rewrite <- Hr. exact (Hskip 4%nat NULL_S E1 eq_refl ltac:(lia)). }
  destruct (startswith (c :: s) TRUE_S) eqn:E2.
  { split; [discriminate|]. intros v r H. injection H as Hv Hr. rewrite <- Hr. exact (Hskip 4%nat TRUE_S E2 eq_refl ltac:(lia)). }
  destruct (startswith (c :: s) FALSE_S) eqn:E3.
  { split; [discriminate|]. intros v r H. injection H as Hv Hr. rewrite <- Hr. exact (Hskip 5%nat FALSE_S E3 eq_refl ltac:(lia)). }
  destruct (startswith (c :: s) NAN_S) eqn:E4.
  { split; [discriminate|]. intros v r H. injection H as Hv Hr. rewrite <- Hr. exact (Hskip 3%nat NAN_S E4 eq_refl ltac:(lia)). }
  destruct (startswith (c :: s) INF_S) eqn:E5.
  { split; [discriminate|]. intros v r H. injection H as Hv Hr. rewrite <- Hr. exact (Hskip 8%nat INF_S E5 eq_refl ltac:(lia)). }
  destruct (startswith (c :: s) NINF_S) eqn:E6.
  { split; [discriminate|]. intros v r H. injection H as Hv Hr. rewrite <- Hr. exact (Hskip 9%nat NINF_S E6 eq_refl ltac:(lia)). }
  destruct (scan_number (c :: s)) as [[[isf nd] rest]|] eqn:Hn; [|split; [discriminate|intros; discriminate]].
  apply scan_number_len in Hn.
  destruct isf.
  - split; [discriminate|]. intros v r H. inversion H; subst. exact Hn.
  - destruct (N.ltb INT_MAX_STR_DIGITS (N.of_nat nd)); [split; [discriminate|intros; discriminate]|].
    split; [discriminate|]. intros v r H. inversion H; subst. exact Hn.
Qed.

Lemma json_loads_fuel : forall s, json_loads s <> JFuel.
Proof.
  intros s. unfold json_loads. destruct (startswith s [65279]); [discriminate|].
  pose proof (skip_ws_length s) as Hsk.
  destruct (scan_once_good (S (length s)) (skip_ws s)) as [H _]; [lia|].
  destruct (scan_once (S (length s)) (skip_ws s)) as [v rest| | |]; try discriminate.
  - destruct (skip_ws rest); discriminate.
  - contradiction.
Qed.

Lemma evaluate_fuel : forall o, evaluate o <> RFuel.
Proof.
  intros [s|]; [|discriminate]. unfold evaluate. destruct s as [|c s]; [discriminate|].
  destruct (xorb _ _); [discriminate|]. destruct (str_in _ _); [discriminate|].
  pose proof (json_loads_fuel (c :: s)) as H.
  destruct (json_loads (c :: s)) as [[]r| | |]; try discriminate. contradiction.
Qed.

Lemma ctype_fuel : forall o, ctype o <> TyFuel.
Proof.
  intros [s|]; [|discriminate]. unfold ctype. pose proof (evaluate_fuel (Some s)) as H.
  destruct (evaluate (Some s)); try discriminate.
  - destruct (_ && _); discriminate.
  - contradiction.
Qed.

(* ---------- None / bool / typing ---------- *)

Lemma null_iff : forall o, evaluate o = RNull <-> o = None \/ o = Some [].
Proof.
  intros o. split.
  - destruct o as [s|]; [|auto]. destruct s as [|c s]; [auto|]. intros H. exfalso.
    unfold evaluate in H. destruct (xorb _ _); [discriminate|]. destruct (str_in _ _); [discriminate|].
    destruct (json_loads (c :: s)) as [[]r| | |]; discriminate.
  - intros [H|H]; subst; reflexivity.
Qed.

Definition quoted (s : str) : bool := startswith s [34] && endswith s [34].

(* _typemap plus the String refinement, as a relation between the value evaluate
   returns for the text s and the Type that type() reports *)
Inductive type_agrees (s : str) : result -> ty -> Prop :=
| ta_null : type_agrees s RNull TyNull
| ta_int : type_agrees s RInt TyInteger
| ta_float : type_agrees s RFloat TyFloat
| ta_string : forall v, quoted s = true -> type_agrees s (RStr v) TyString
| ta_symbol : forall v, quoted s = false -> type_agrees s (RStr v) TySymbol
| ta_consterr : type_agrees s RConstErr TyConstErr.

Lemma type_matches : forall s, type_agrees s (evaluate (Some s)) (ctype (Some s)).
Proof.
  intros s. unfold ctype. pose proof (evaluate_fuel (Some s)) as Hf.
  destruct (evaluate (Some s)) eqn:E; try constructor.
  - rewrite ends_with_endswith. fold (quoted s). destruct (quoted s) eqn:Q; constructor; exact Q.
  - contradiction.
Qed.

Lemma type_none : ctype None = TyNull /\ evaluate None = RNull.
Proof. split; reflexivity. Qed.

(* json literals, bare or padded with JSON blanks, are symbols (F24) *)
Lemma skip_ws_decomp : forall s, exists a, s = a ++ skip_ws s /\ forallb is_jws a = true.
Proof.
  induction s as [|c s [a [H1 H2]]]; [exists []; split; reflexivity|].
  simpl. destruct (is_jws c) eqn:E.
  - exists (c :: a). split; [simpl; f_equal; exact H1|simpl; rewrite E; exact H2].
  - exists []. split; reflexivity.
Qed.
Lemma strip_decomp : forall s, exists a b, s = a ++ strip_json_ws s ++ b /\
  forallb is_jws a = true /\ forallb is_jws b = true.
Proof.
  intros s. destruct (skip_ws_decomp s) as [a [Ha1 Ha2]].
  destruct (skip_ws_decomp (rev (skip_ws s))) as [b [Hb1 Hb2]].
  exists a, (rev b). split; [|split; [exact Ha2|rewrite forallb_rev; exact Hb2]].
  unfold strip_json_ws. rewrite <- rev_app_distr, <- Hb1, rev_involutive. exact Ha1.
Qed.
Lemma skip_ws_of_all : forall b, forallb is_jws b = true -> skip_ws b = [].
Proof.
  induction b as [|c b IH]; simpl; intros H; [reflexivity|].
  apply andb_true_iff in H. destruct H as [Hc Hb]. rewrite Hc. apply IH. exact Hb.
Qed.
Lemma is_jws_cases : forall c, is_jws c = true -> c = 32 \/ c = 9 \/ c = 10 \/ c = 13.
Proof.
  intros c H. unfold is_jws, isin in H. cbn [existsb] in H.
  repeat (apply orb_true_iff in H; destruct H as [H|H]; [apply eqc_true in H; auto|]). discriminate.
Qed.
Lemma startswith_ws_app : forall k a t, forallb is_jws a = true -> is_jws k = false ->
  startswith t [k] = false -> startswith (a ++ t) [k] = false.
Proof.
  intros k a t Ha Hk Ht. destruct a as [|c a]; [exact Ht|].
  cbn [app startswith]. cbn [forallb] in Ha. apply andb_true_iff in Ha. destruct Ha as [Hc _].
  replace (eqc k c) with false; [reflexivity|]. symmetry. apply eqc_false. intros ->. congruence.
Qed.

Lemma evaluate_nonempty : forall s, s <> [] -> evaluate (Some s) =
  if xorb (startswith s [34]) (endswith s [34]) then RConstErr
  else if str_in s [TRUE_S; FALSE_S; NULL_S] then RStr s
  else match json_loads s with
       | JOk (JStr v) _ => RStr v | JOk JInt _ => RInt | JOk JFloat _ => RFloat
       | JOk (JConst t) _ => RStr t | JOk (JBool _) _ => RStr s | JOk JNull _ => RStr s
       | JOk JContainer _ => RConstErr | JFail => RStr s | JValErr => RStr s | JFuel => RFuel
       end.
Proof. intros [|c s] H; [congruence|]. rewrite <- ends_with_endswith. reflexivity. Qed.

Lemma literal_padded : forall lit v a b,
  (lit = TRUE_S /\ v = JBool true) \/ (lit = FALSE_S /\ v = JBool false) \/ (lit = NULL_S /\ v = JNull) ->
  forallb is_jws a = true -> forallb is_jws b = true ->
  evaluate (Some (a ++ lit ++ b)) = RStr (a ++ lit ++ b).
Proof.
  intros lit v a b Hlit Ha Hb.
  assert (Hne : a ++ lit ++ b <> []).
  { destruct a; [|discriminate]. destruct Hlit as [[-> _]|[[-> _]|[-> _]]]; discriminate. }
  rewrite evaluate_nonempty by exact Hne.
  assert (Hs : startswith (a ++ lit ++ b) [34] = false).
  { apply startswith_ws_app; [exact Ha|reflexivity|].
    destruct Hlit as [[-> _]|[[-> _]|[-> _]]]; reflexivity. }
  assert (He : endswith (a ++ lit ++ b) [34] = false).
  { unfold endswith. rewrite !rev_app_distr. rewrite <- app_assoc. cbn [rev app].
    apply startswith_ws_app; [rewrite forallb_rev; exact Hb|reflexivity|].
    destruct Hlit as [[-> _]|[[-> _]|[-> _]]]; reflexivity. }
  rewrite Hs, He. cbn [xorb].
  destruct (str_in _ _); [reflexivity|].
  assert (Hl : json_loads (a ++ lit ++ b) = JOk v []).
  { unfold json_loads.
    replace (startswith (a ++ lit ++ b) [65279]) with false.
    2:{ symmetry. apply startswith_ws_app; [exact Ha|reflexivity|].
        destruct Hlit as [[-> _]|[[-> _]|[-> _]]]; reflexivity. }
    rewrite skip_ws_app_ws by exact Ha.
    destruct Hlit as [[-> ->]|[[-> ->]|[-> ->]]].
    - cbn. rewrite !startswith_nil. cbn. rewrite skip_ws_of_all by exact Hb. reflexivity.
    - cbn. rewrite !startswith_nil. cbn. rewrite skip_ws_of_all by exact Hb. reflexivity.
    - cbn. rewrite !startswith_nil. cbn. rewrite skip_ws_of_all by exact Hb. reflexivity. }
  rewrite Hl. destruct Hlit as [[_ ->]|[[_ ->]|[_ ->]]]; reflexivity.
Qed.

Lemma literals_are_symbols : forall s,
  str_in (strip_json_ws s) [TRUE_S; FALSE_S; NULL_S] = true -> evaluate (Some s) = RStr s.
Proof.
  intros s H. destruct (strip_decomp s) as [a [b [Hs [Ha Hb]]]].
  rewrite Hs at 1 2.
  assert (Heq : forall x y, str_eqb x y = true -> x = y).
  { induction x as [|c x IH]; intros [|d y] E; simpl in E; try discriminate; [reflexivity|].
    apply andb_true_iff in E. destruct E as [E1 E2]. apply N.eqb_eq in E1. subst. f_equal. apply IH. exact E2. }
  unfold str_in in H. cbn [existsb] in H.
  apply orb_true_iff in H. destruct H as [H|H].
  { apply Heq in H. rewrite H. eapply literal_padded; [left; split; reflexivity|exact Ha|exact Hb]. }
  apply orb_true_iff in H. destruct H as [H|H].
  { apply Heq in H. rewrite H. eapply literal_padded; [right; left; split; reflexivity|exact Ha|exact Hb]. }
  apply orb_true_iff in H. destruct H as [H|H]; [|discriminate].
  apply Heq in H. rewrite H. eapply literal_padded; [right; right; split; reflexivity|exact Ha|exact Hb].
Qed.

Lemma quote_num : forall txt z, quote (ANum txt z) = quote_str txt.
Proof. reflexivity. Qed.
Lemma quote_none : quote ANone = [34; 34].
Proof. reflexivity. Qed.
Lemma quote_none_is_empty_string : evaluate (Some (quote ANone)) = RStr [] /\ quote ANone = quote (AStr []).
Proof. split; reflexivity. Qed.

(* ---------- completeness: every JSON number literal IS evaluated to int / float ---------- *)

Definition nondigit_start (r : str) : Prop := match r with [] => True | c :: _ => is_digit c = false end.
Definition ws_start (r : str) : Prop := match r with [] => True | c :: _ => is_jws c = true end.

Lemma digit_is_digit : forall c, digit c -> is_digit c = true.
Proof. intros c [H1 H2]. unfold is_digit. apply andb_true_iff. split; apply N.leb_le; assumption. Qed.

Lemma span_digits_app : forall ds r, Forall digit ds -> nondigit_start r ->
  span is_digit (ds ++ r) = (ds, r).
Proof.
  induction ds as [|d ds IH]; intros r Hd Hr.
  - destruct r as [|c r]; [reflexivity|]. simpl in *. rewrite Hr. reflexivity.
  - inversion Hd; subst. simpl. rewrite digit_is_digit by assumption. rewrite IH by assumption. reflexivity.
Qed.

Lemma scan_int_complete : forall i r, json_int i -> nondigit_start r ->
  scan_int (i ++ r) = Some (length i, r).
Proof.
  intros i r Hi Hr. inversion Hi; subst.
  - reflexivity.
  - cbn [app scan_int]. unfold is_digit19.
    replace (N.leb 49 c) with true by (symmetry; apply N.leb_le; assumption).
    replace (N.leb c 57) with true by (symmetry; apply N.leb_le; assumption).
    cbn [andb]. rewrite span_digits_app by assumption. reflexivity.
Qed.

Lemma scan_frac_complete : forall f r, json_frac f -> nondigit_start r -> scan_frac (f ++ r) = (true, r).
Proof.
  intros f r Hf Hr. inversion Hf as [ds [Hne Hall]]; subst.
  cbn [app scan_frac]. change (eqc 46 46) with true. cbv iota.
  rewrite span_digits_app by assumption. destruct ds; [congruence|reflexivity].
Qed.
Lemma scan_frac_none : forall r, match r with [] => True | c :: _ => c <> 46 end -> scan_frac r = (false, r).
Proof.
  intros [|c r] H; [reflexivity|]. unfold scan_frac. apply eqc_false in H. rewrite H. reflexivity.
Qed.

Lemma scan_exp_complete : forall e r, json_exp e -> nondigit_start r -> scan_exp (e ++ r) = (true, r).
Proof.
  intros e r He Hr. inversion He as [x sg ds Hx Hsg [Hne Hall]]; subst.
  destruct ds as [|d0 ds]; [congruence|]. inversion Hall as [|? ? Hd0 Hds]; subst.
  assert (Hx' : eqc x 101 || eqc x 69 = true).
  { destruct Hx as [->| ->]; reflexivity. }
  cbn [app scan_exp]. rewrite Hx'.
  assert (Hspan : span is_digit ((d0 :: ds) ++ r) = (d0 :: ds, r)) by (apply span_digits_app; assumption).
  destruct Hsg as [->|[->| ->]]; cbn [app].
  - replace (eqc d0 45 || eqc d0 43) with false.
    2:{ symmetry. apply orb_false_iff. destruct Hd0. split; apply eqc_false; lia. }
    cbn [app] in Hspan. rewrite Hspan. reflexivity.
  - change (eqc 43 45 || eqc 43 43) with true. cbv iota. cbn [app] in Hspan. rewrite Hspan. reflexivity.
  - change (eqc 45 45 || eqc 45 43) with true. cbv iota. cbn [app] in Hspan. rewrite Hspan. reflexivity.
Qed.
Lemma scan_exp_none : forall r, match r with [] => True | c :: _ => c <> 101 /\ c <> 69 end ->
  scan_exp r = (false, r).
Proof.
  intros [|c r] H; [reflexivity|]. destruct H as [H1 H2]. unfold scan_exp.
  apply eqc_false in H1. apply eqc_false in H2. rewrite H1, H2. reflexivity.
Qed.

Lemma ws_start_cases : forall b, ws_start b ->
  nondigit_start b /\ match b with [] => True | c :: _ => c <> 46 end /\
  match b with [] => True | c :: _ => c <> 101 /\ c <> 69 end.
Proof.
  intros [|c b] H; [repeat split|]. simpl in H. apply is_jws_cases in H.
  split; [|split].
  - simpl. unfold is_digit. destruct H as [->|[->|[->| ->]]]; reflexivity.
  - destruct H as [->|[->|[->| ->]]]; discriminate.
  - destruct H as [->|[->|[->| ->]]]; split; discriminate.
Qed.

Lemma json_int_first : forall i, json_int i -> exists c t, i = c :: t /\ digit c.
Proof.
  intros i H. inversion H; subst; [exists 48, []|exists c, ds]; (split; [reflexivity|unfold digit; lia]).
Qed.

Definition has (x : str) : bool := match x with [] => false | _ => true end.

Lemma scan_number_complete : forall sg i f e b,
  sign sg -> json_int i -> opt json_frac f -> opt json_exp e -> ws_start b ->
  scan_number (sg ++ i ++ f ++ e ++ b) = Some (has f || has e, length i, b).
Proof.
  intros sg i f e b Hsg Hi Hf He Hb.
  destruct (ws_start_cases b Hb) as [Hb1 [Hb2 Hb3]].
  destruct (json_int_first i Hi) as [c0 [t0 [Hi0 Hc0]]].
  assert (Hs1 : scan_number (sg ++ i ++ f ++ e ++ b) =
                match scan_int (i ++ f ++ e ++ b) with
                | None => None
                | Some (nd, r1) =>
                    let '(f1, r2) := scan_frac r1 in
                    let '(f2, r3) := scan_exp r2 in Some (f1 || f2, nd, r3)
                end).
  { destruct Hsg as [->| ->]; cbn [app].
    - rewrite Hi0. cbn [app]. unfold scan_number.
      rewrite (proj2 (eqc_false c0 45)) by (destruct Hc0; lia). reflexivity.
    - reflexivity. }
  rewrite Hs1. clear Hs1.
  (* what follows the exponent, the fraction, the integer part *)
  assert (Heb : nondigit_start (e ++ b) /\ match e ++ b with [] => True | c :: _ => c <> 46 end).
  { destruct He as [->|He]; [split; assumption|]. inversion He as [x ? ? Hx]; subst.
    cbn [app]. unfold nondigit_start. split; destruct Hx as [->| ->]; try reflexivity; discriminate. }
  destruct Heb as [Heb1 Heb2].
  assert (Hfeb : nondigit_start (f ++ e ++ b)).
  { destruct Hf as [->|Hf]; [exact Heb1|]. inversion Hf; subst. reflexivity. }
  rewrite scan_int_complete by assumption.
  assert (Hfr : scan_frac (f ++ e ++ b) = (has f, e ++ b)).
  { destruct Hf as [->|Hf].
    - cbn [app has]. apply scan_frac_none. exact Heb2.
    - rewrite scan_frac_complete by assumption. inversion Hf; reflexivity. }
  rewrite Hfr.
  assert (Hex : scan_exp (e ++ b) = (has e, b)).
  { destruct He as [->|He].
    - cbn [app has]. apply scan_exp_none. exact Hb3.
    - rewrite scan_exp_complete by assumption. inversion He; reflexivity. }
  rewrite Hex. reflexivity.
Qed.

(* scan_once on a text that starts like a number goes to scan_number *)
Lemma scan_once_numstart : forall f c t,
  digit c \/ (c = 45 /\ exists d t', t = d :: t' /\ digit d) ->
  scan_once (S f) (c :: t) =
  match scan_number (c :: t) with
  | None => JFail
  | Some (isf, nd, rest) =>
      if isf then JOk JFloat rest
      else if N.ltb INT_MAX_STR_DIGITS (N.of_nat nd) then JValErr else JOk JInt rest
  end.
Proof.
  intros f c t H. cbn [scan_once].
  assert (Hc : c <> 34 /\ c <> 123 /\ c <> 91 /\ c <> 110 /\ c <> 116 /\ c <> 102 /\ c <> 78 /\ c <> 73).
  { destruct H as [[H1 H2]|[-> _]]; repeat split; try lia; discriminate. }
  destruct Hc as [H1 [H2 [H3 [H4 [H5 [H6 [H7 H8]]]]]]].
  rewrite (proj2 (eqc_false c 34) H1), (proj2 (eqc_false c 123) H2), (proj2 (eqc_false c 91) H3).
  assert (HN : startswith (c :: t) NINF_S = false).
  { unfold NINF_S, INF_S. cbn [startswith].
    destruct H as [[Ha Hb]|[-> [d [t' [-> [Ha Hb]]]]]].
    - rewrite (proj2 (eqc_false 45 c)) by lia. reflexivity.
    - cbn [startswith]. rewrite (proj2 (eqc_false 73 d)) by lia. rewrite andb_false_r. reflexivity. }
  rewrite HN.
  unfold NULL_S, TRUE_S, FALSE_S, NAN_S, INF_S. cbn [startswith].
  rewrite (proj2 (eqc_false 110 c)) by congruence. rewrite (proj2 (eqc_false 116 c)) by congruence.
  rewrite (proj2 (eqc_false 102 c)) by congruence. rewrite (proj2 (eqc_false 78 c)) by congruence.
  rewrite (proj2 (eqc_false 73 c)) by congruence. cbn [andb]. reflexivity.
Qed.

Lemma str_eqb_eq : forall x y, str_eqb x y = true -> x = y.
Proof.
  induction x as [|c x IH]; intros [|d y] E; simpl in E; try discriminate; [reflexivity|].
  apply andb_true_iff in E. destruct E as [E1 E2]. apply N.eqb_eq in E1. subst. f_equal. apply IH. exact E2.
Qed.

(* the whole text: blanks, a number literal p = sg i f e, blanks *)
Lemma evaluate_number_text : forall a sg i f e b,
  forallb is_jws a = true -> forallb is_jws b = true ->
  sign sg -> json_int i -> opt json_frac f -> opt json_exp e ->
  evaluate (Some (a ++ (sg ++ i ++ f ++ e) ++ b)) =
  if has f || has e then RFloat
  else if N.ltb INT_MAX_STR_DIGITS (N.of_nat (length i)) then RStr (a ++ (sg ++ i ++ f ++ e) ++ b)
  else RInt.
Proof.
  intros a sg i f e b Ha Hb Hsg Hi Hf He.
  set (p := sg ++ i ++ f ++ e). set (s := a ++ p ++ b).
  destruct (json_int_first i Hi) as [c0 [t0 [Hi0 Hc0]]].
  (* first character of p *)
  assert (Hp0 : exists c t, p ++ b = c :: t /\ (digit c \/ (c = 45 /\ exists d t', t = d :: t' /\ digit d))).
  { unfold p. destruct Hsg as [->| ->]; rewrite Hi0; cbn [app].
    - eexists; eexists; split; [reflexivity|left; exact Hc0].
    - eexists; eexists; split; [reflexivity|right]. split; [reflexivity|]. eexists; eexists; split; [reflexivity|exact Hc0]. }
  destruct Hp0 as [c [t [Hpb Hc]]].
  assert (Hcne : forall k, is_jws k = false -> k <> 45 -> ~ digit k -> startswith (p ++ b) [k] = false).
  { intros k _ Hk1 Hk2. rewrite Hpb. cbn [startswith]. replace (eqc k c) with false; [reflexivity|].
    symmetry. apply eqc_false. intros ->. destruct Hc as [Hc|[Hc _]]; [exact (Hk2 Hc)|exact (Hk1 Hc)]. }
  (* last character of p *)
  assert (Hpl : exists p' d, p = p' ++ [d] /\ digit d).
  { assert (Hn : scan_number (p ++ []) = Some (has f || has e, length i, [])).
    { unfold p. rewrite <- !app_assoc. apply scan_number_complete; try assumption. exact I. }
    apply scan_number_spec in Hn. destruct Hn as [q [Hq [_ [Hlast _]]]].
    rewrite !app_nil_r in Hq. subst q. exact Hlast. }
  destruct Hpl as [p' [d [Hpd Hd]]].
  assert (Hne : s <> []).
  { unfold s. rewrite Hpd. destruct a; [destruct p'|]; discriminate. }
  rewrite evaluate_nonempty by exact Hne.
  assert (Hs : startswith s [34] = false).
  { unfold s. apply startswith_ws_app; [exact Ha|reflexivity|].
    apply Hcne; [reflexivity|discriminate|]. intros [H1 H2]. lia. }
  assert (He' : endswith s [34] = false).
  { unfold endswith, s. rewrite !rev_app_distr. rewrite <- app_assoc.
    apply startswith_ws_app; [rewrite forallb_rev; exact Hb|reflexivity|].
    rewrite Hpd, rev_app_distr. cbn [rev app startswith].
    replace (eqc 34 d) with false; [reflexivity|]. symmetry. apply eqc_false. destruct Hd. lia. }
  rewrite Hs, He'. cbn [xorb].
  assert (Hin : str_in s [TRUE_S; FALSE_S; NULL_S] = false).
  { destruct (str_in s [TRUE_S; FALSE_S; NULL_S]) eqn:E; [|reflexivity]. exfalso.
    assert (Hd_in : In d s) by (unfold s; rewrite Hpd; apply in_or_app; right; apply in_or_app; left;
                                 apply in_or_app; right; left; reflexivity).
    unfold str_in in E. cbn [existsb] in E.
    repeat (apply orb_true_iff in E; destruct E as [E|E];
            [apply str_eqb_eq in E; rewrite E in Hd_in; cbn [In TRUE_S FALSE_S NULL_S] in Hd_in;
             destruct Hd as [Hd1 Hd2];
             repeat (destruct Hd_in as [Hd_in|Hd_in]; [subst d; lia|]); exact Hd_in|]).
    discriminate. }
  rewrite Hin.
  assert (Hl : json_loads s = match (if has f || has e then JOk JFloat []
                                      else if N.ltb INT_MAX_STR_DIGITS (N.of_nat (length i)) then JValErr
                                      else JOk JInt []) with x => x end).
  { unfold json_loads.
    replace (startswith s [65279]) with false.
    2:{ symmetry. unfold s. apply startswith_ws_app; [exact Ha|reflexivity|].
        apply Hcne; [reflexivity|discriminate|]. intros [H1 H2]. lia. }
    unfold s at 2. rewrite skip_ws_app_ws by exact Ha.
    assert (Hsk : skip_ws (p ++ b) = p ++ b).
    { rewrite Hpb. cbn [skip_ws]. replace (is_jws c) with false; [reflexivity|].
      symmetry. destruct Hc as [Hc|[-> _]]; [apply is_jws_digit; exact Hc|reflexivity]. }
    rewrite Hsk. rewrite Hpb. rewrite scan_once_numstart by exact Hc. rewrite <- Hpb.
    assert (Hwb : ws_start b). { destruct b as [|x b']; [exact I|]. simpl in Hb. apply andb_true_iff in Hb. exact (proj1 Hb). }
    unfold p. rewrite <- !app_assoc. rewrite scan_number_complete by assumption.
    destruct (has f || has e).
    - rewrite skip_ws_of_all by exact Hb. reflexivity.
    - destruct (N.ltb INT_MAX_STR_DIGITS (N.of_nat (length i))); [reflexivity|].
      rewrite skip_ws_of_all by exact Hb. reflexivity. }
  rewrite Hl. fold p. fold s.
  destruct (has f || has e); [reflexivity|].
  destruct (N.ltb INT_MAX_STR_DIGITS (N.of_nat (length i))); reflexivity.
Qed.

Lemma has_false : forall x, has x = false <-> x = [].
Proof. intros [|c x]; simpl; split; intros H; congruence. Qed.

(* completeness, on the stripped text: floats always; integers unless more than 4300 digits *)
Lemma number_complete : forall s,
  (json_float (strip_json_ws s) -> evaluate (Some s) = RFloat) /\
  (forall sg i, strip_json_ws s = sg ++ i -> sign sg -> json_int i ->
     evaluate (Some s) = if N.ltb INT_MAX_STR_DIGITS (N.of_nat (length i)) then RStr s else RInt).
Proof.
  intros s. destruct (strip_decomp s) as [a [b [Hs [Ha Hb]]]]. split.
  - intros [sg [i [f [e [Hp [Hsg [Hi [Hf [He Hfe]]]]]]]]].
    rewrite Hs, Hp. rewrite evaluate_number_text by assumption.
    replace (has f || has e) with true; [reflexivity|]. symmetry. apply orb_true_iff.
    destruct Hfe as [H|H]; [left|right]; (destruct (has _) eqn:E; [reflexivity|apply has_false in E; contradiction]).
  - intros sg i Hp Hsg Hi.
    assert (Hp' : strip_json_ws s = sg ++ i ++ [] ++ []) by (rewrite !app_nil_r; exact Hp).
    rewrite Hs at 1. rewrite Hp'. rewrite evaluate_number_text; try assumption; try (left; reflexivity).
    cbn [has orb]. rewrite <- Hp', <- Hs. reflexivity.
Qed.

(* ---------- non-vacuity: concrete instances (kernel computation) ---------- *)

(* dquote, backslash, LF, U+2028, U+1F600, NUL, e-acute, DEL *)
Definition ex_x : str := [34; 92; 10; 8232; 128512; 0; 233; 127].
Definition ex_q : str :=
  [34;92;34;92;92;92;110;92;117;50;48;50;56;92;117;100;56;51;100;92;117;100;101;48;48;
   92;117;48;48;48;48;92;117;48;48;101;57;92;117;48;48;55;102;34].

Example ex_scalar : scalar_str ex_x.
Proof. vm_compute. reflexivity. Qed.
Example ex_quote : quote_str ex_x = ex_q.
Proof. vm_compute. reflexivity. Qed.
Example ex_lex : lex_str PENMAN_ALTS ex_q = [mkToken STRING ex_q 1 0]
              /\ lex_str TRIPLE_ALTS ex_q = [mkToken STRING ex_q 1 0].
Proof. split; vm_compute; reflexivity. Qed.
Example ex_evaluate : evaluate (Some ex_q) = RStr ex_x /\ ctype (Some ex_q) = TyString.
Proof. split; vm_compute; reflexivity. Qed.

(* N5: two adjacent lone surrogates are NOT recovered (json joins the pair):
   the hypothesis scalar_str of evaluate_quote cannot be dropped *)
Example ex_lone_surrogates_joined :
  evaluate (Some (quote_str [55357; 56832])) = RStr [128512].
Proof. vm_compute. reflexivity. Qed.
(* a single lone surrogate does survive *)
Example ex_lone_surrogate_alone : evaluate (Some (quote_str [55357; 97])) = RStr [55357; 97].
Proof. vm_compute. reflexivity. Qed.

Example ex_evaluate_table :
  evaluate (Some [49;50]) = RInt /\                                  (* 12 *)
  evaluate (Some [45;49;46;53;101;51]) = RFloat /\                   (* -1.5e3 *)
  evaluate (Some [32;49;32]) = RInt /\                               (* blank 1 blank *)
  evaluate (Some [48;49]) = RStr [48;49] /\                          (* 01 is a symbol *)
  evaluate (Some [91;49;44;32;123;34;97;34;58;32;110;117;108;108;125;93]) = RConstErr /\  (* a list *)
  evaluate (Some TRUE_S) = RStr TRUE_S /\ evaluate (Some FALSE_S) = RStr FALSE_S /\
  evaluate (Some NULL_S) = RStr NULL_S /\
  evaluate (Some (32 :: TRUE_S)) = RStr (32 :: TRUE_S) /\            (* F24: padded literal *)
  evaluate (Some (NULL_S ++ [32])) = RStr (NULL_S ++ [32]) /\
  evaluate (Some NAN_S) = RStr NAN_S /\
  evaluate (Some (NINF_S ++ [32])) = RStr NINF_S /\
  evaluate (Some [34;97;34;98;34]) = RStr [34;97;34;98;34] /\        (* inner bare dquote: not JSON *)
  evaluate (Some [34;97;98;99]) = RConstErr /\                       (* unbalanced quotes *)
  evaluate (Some [34;92;117;48;48;101;57;92;117;100;56;51;100;92;117;100;101;48;48;34]) = RStr [233; 128512] /\
  evaluate (Some []) = RNull /\ evaluate None = RNull.
Proof. vm_compute. repeat split. Qed.

Example ex_ctype_table :
  ctype (Some [49;50]) = TyInteger /\ ctype (Some [45;49;46;53;101;51]) = TyFloat /\
  ctype (Some [45]) = TySymbol /\ ctype (Some [34;97;34]) = TyString /\
  ctype (Some []) = TyNull /\ ctype None = TyNull /\ ctype (Some [91;93]) = TyConstErr /\
  ctype (Some (32 :: TRUE_S)) = TySymbol.
Proof. vm_compute. repeat split. Qed.

(* CPython's 4300-digit limit for int(): F16 *)
Example ex_int_limit :
  evaluate (Some (repeat 49 4300)) = RInt /\
  evaluate (Some (repeat 49 4301)) = RStr (repeat 49 4301) /\
  evaluate (Some (45 :: repeat 49 4300)) = RInt /\
  evaluate (Some (repeat 49 4301 ++ [46; 48])) = RFloat /\
  ctype (Some (repeat 49 4301)) = TySymbol.
Proof. vm_compute. repeat split. Qed.

Example ex_json_integer : json_integer [45; 49; 50].
Proof.
  exists [45], [49; 50]. split; [reflexivity|]. split; [right; reflexivity|].
  apply ji_pos; [lia|lia|]. repeat constructor; lia.
Qed.
Example ex_json_float : json_float [48; 46; 53; 69; 43; 49].
Proof.
  exists [], [48], [46; 53], [69; 43; 49]. split; [reflexivity|]. split; [left; reflexivity|].
  split; [apply ji_zero|]. split; [|split].
  - right. apply jf_some. split; [discriminate|]. repeat constructor; lia.
  - right. apply (je_some 69 [43] [49]); [right; reflexivity|right; left; reflexivity|].
    split; [discriminate|]. repeat constructor; lia.
  - left. discriminate.
Qed.
