(** Extraction of the idempotence certificates of Properties/C20c.v (group `cert`).
    Separate from Extract/ExCli.v because the general certificate uses definitions that
    live in Proofs/CliIdem_lemmas.v (RA, cli_relabel_ok): if a proof file does not
    compile, only the certificate stream of the C20 check is affected, not the
    extracted model of the command. *)
From PM Require Import Impl.Anchor Impl.Cli Spec.Idle Proofs.IdleGen.
Require Extraction.
Require Import ExtrOcamlBasic.
Extraction Language OCaml.
Extraction "../ocaml/cert/model.ml" types_anchor mkOpts parse_fmt idempotence_certificate general_certificate any_certificate.
