(** Extraction of the role-algebra group (C13): ocaml/model/model.ml *)
From PM Require Import Impl.Anchor Impl.CanonRoles.
Require Extraction.
Require Import ExtrOcamlBasic.
Extraction Language OCaml.
Extraction "../ocaml/model/model.ml"
  types_anchor canonicalize_role has_role is_role_inverted invert_role invert deinvert
  canon_node alnum_key canonical_key reify dereify is_role_reifiable is_concept_dereifiable.
