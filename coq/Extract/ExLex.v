(** Extraction of the lexer alone (C08). *)
From PM Require Import Impl.Anchor Impl.Lexer.
Require Extraction.
Require Import ExtrOcamlBasic.
Extraction Language OCaml.
Extraction "../ocaml/lex/model.ml"
  types_anchor lex_str lex_lines lex_line PENMAN_ALTS TRIPLE_ALTS split_lines.
