(** Extraction of the model checker (C16) and the variable relabelling (C10). *)
From PM Require Import Impl.Anchor Impl.Errors Impl.Interpret Impl.ResetVars.
Require Extraction.
Require Import ExtrOcamlBasic.
Extraction Language OCaml.
Extraction "../ocaml/errvars/model.ml"
  types_anchor errors_opt check_graph cli_exit_code cli_exit_code_stdin interpret
  parse_fmt render reset_variables_ov prefix_ov latin1_is_alpha latin1_lower latin1_applies.
