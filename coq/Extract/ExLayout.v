(** Extraction of the layout group (C02 / C05): wf_layout_tree, configure after
    interpret, rearrange / reconfigure under every key of the command line. *)
From PM Require Import Impl.Anchor Impl.Interpret Impl.Configure Impl.Layout Spec.WfLayout.
Require Extraction.
Require Import ExtrOcamlBasic.
Extraction Language OCaml.

(* glue: one constructor per sort key the harness can ask for *)
Inductive keyspec :=
| KNone | KOriginal | KAlnum | KCanonical
| KStream (s : list N)            (* random_order: the numbers random.random() returns *)
| KTable (t : list (str * N)).    (* arbitrary finite key table *)

Definition rearrange_spec (m : model) (k : keyspec) (af : bool) (t : tree) : tree :=
  match k with
  | KNone => rearrange unit_leb None af t
  | KOriginal => rearrange bool_leb (Some original_key) af t
  | KAlnum => rearrange alnum_leb (Some alnum_key) af t
  | KCanonical => rearrange canonical_leb (Some (canonical_key m)) af t
  | KStream s => snd (rearrange_st N.leb stream_key af s t)
  | KTable tb => rearrange N.leb (Some (table_key tb)) af t
  end.

Definition reconfigure_spec (m : model) (k : keyspec) (g : graph) (top : option atom) : outcome tree :=
  match k with
  | KNone => reconfigure unit_leb m g top None
  | KOriginal => reconfigure bool_leb m g top (Some original_key)
  | KAlnum => reconfigure alnum_leb m g top (Some alnum_key)
  | KCanonical => reconfigure canonical_leb m g top (Some (canonical_key m))
  | KStream s => reconfigure_st N.leb m g top (Some stream_key) s
  | KTable tb => reconfigure N.leb m g top (Some (table_key tb))
  end.

Definition reconfigure_graph_spec (m : model) (k : keyspec) (g : graph) : graph :=
  match k with
  | KNone => snd (reconfigure_graph_st (K := unit) (S := unit) unit_leb None tt g)
  | KOriginal => snd (reconfigure_graph_st bool_leb (Some (pure_key original_key)) tt g)
  | KAlnum => snd (reconfigure_graph_st alnum_leb (Some (pure_key alnum_key)) tt g)
  | KCanonical => snd (reconfigure_graph_st canonical_leb (Some (pure_key (canonical_key m))) tt g)
  | KStream s => snd (reconfigure_graph_st N.leb (Some stream_key) s g)
  | KTable tb => snd (reconfigure_graph_st N.leb (Some (pure_key (table_key tb))) tt g)
  end.

Definition configure_interpret (m : model) (t : tree) : outcome tree :=
  g <- interpret m t ;; configure m g None.

Extraction "../ocaml/layout/model.ml"
  types_anchor interpret configure wf_layout_tree drop_empty_concepts denoted
  configure_interpret rearrange_spec reconfigure_spec reconfigure_graph_spec alnum_key alnum_leb.
