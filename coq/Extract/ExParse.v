(** Extraction for C07 / C19: the independent recogniser of Spec.Grammar (the oracle),
    the parser model on explicit token lists, and the triple-conjunction entry points. *)
From PM Require Import Impl.Anchor Impl.Parse Impl.Format Spec.Grammar.
Require Extraction.
Require Import ExtrOcamlBasic.
Extraction Language OCaml.
Extraction "../ocaml/parse/model.ml"
  types_anchor recognise_full recognise_tree recognise_all rres_pos
  parse_tree parse_node parse_fuel iter_of iterparse_toks parse_triples_loop
  lex_str PENMAN_ALTS TRIPLE_ALTS parse iterparse_str parse_triples format_triples.
