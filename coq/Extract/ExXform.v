(** Extraction of the graph transformations (reify / dereify edges, reify
    attributes, indicate branches) together with the core pipeline pieces the
    C11 / C12 correspondence needs. *)
From PM Require Import Impl.Anchor Impl.Transform.
Require Extraction.
Require Import ExtrOcamlBasic.
Extraction Language OCaml.
Extraction "../ocaml/xform/model.ml"
  types_anchor reify_edges dereify_edges dereify_agenda reify_attributes indicate_branches
  appears_inverted variables.
