(** Extraction of the command-line group (C20): Impl.Cli.run and what the
    driver needs to build its options.  (The certificates of Properties/C20c.v are
    extracted separately: ExtractCert/ExCert.v.) *)
From PM Require Import Impl.Anchor Impl.Cli.
Require Extraction.
Require Import ExtrOcamlBasic.
Extraction Language OCaml.
Extraction "../ocaml/cli/model.ml" types_anchor run mkOpts parse_fmt process_in process_tree.
