(** Extraction of the command-line group (C20): Impl.Cli.run and what the
    driver needs to build its options; idempotence_certificate (Spec/Idle.v) is the
    decidable hypothesis of Properties/C20c.v, evaluated by the harness per case. *)
From PM Require Import Impl.Anchor Impl.Cli Spec.Idle.
Require Extraction.
Require Import ExtrOcamlBasic.
Extraction Language OCaml.
Extraction "../ocaml/cli/model.ml" types_anchor run mkOpts parse_fmt process_in process_tree idempotence_certificate.
