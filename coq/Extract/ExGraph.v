(** Extraction of the graph queries and set operations (C15). *)
From PM Require Import Impl.Anchor Impl.Graph Impl.GraphOps.
Require Extraction.
Require Import ExtrOcamlBasic.
Extraction Language OCaml.
Extraction "../ocaml/graph/model.ml"
  types_anchor mk_graph graph_top top_value variables filter_triples instances edges attributes
  set_top reentrancies g_ior g_or g_isub g_sub graph_eq_py.
