(** Extraction of the constant module (quote / evaluate / type) and the lexer. *)
From PM Require Import Impl.Anchor Impl.Lexer Impl.Constant.
Require Extraction.
Require Import ExtrOcamlBasic.
Extraction Language OCaml.
Extraction "../ocaml/const/model.ml"
  types_anchor quote quote_str evaluate ctype json_loads lex_str PENMAN_ALTS TRIPLE_ALTS.
