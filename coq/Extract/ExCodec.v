(** Extraction of the codec group (C01 / C09): ocaml/codec/model.ml *)
From PM Require Import Impl.Anchor Impl.Codec Spec.WellFormed.
Require Extraction.
Require Import ExtrOcamlBasic.
Extraction Language OCaml.
Extraction "../ocaml/codec/model.ml"
  types_anchor lex_str lex_lines PENMAN_ALTS TRIPLE_ALTS parse iterparse_lines iterparse_str
  format interpret configure
  decode encode iterdecode_lines iterdecode_str loads load_lines dumps dump_text
  lines_keepends universal_newlines split_lines
  wf_tree wf_node wf_meta tokens_of.
