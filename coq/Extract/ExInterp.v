(** Extraction group interp: the reference reading (Spec!) next to the model of
    interpret and of the layout diagnostics (C04, C14). *)
From PM Require Import Impl.Anchor Impl.Interpret Impl.Diagnostics Spec.Reading.
Require Extraction.
Require Import ExtrOcamlBasic.
Extraction Language OCaml.
Extraction "../ocaml/interp/model.ml"
  types_anchor reading reading_as_graph wf_layout_tree interpret node_contexts appears_inverted
  get_pushed_variable alignments role_alignments.
