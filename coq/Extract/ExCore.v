(** Extraction of the core pipeline (lex / parse / format / interpret / configure). *)
From PM Require Import Impl.Anchor Impl.Parse Impl.Format Impl.Interpret Impl.Configure.
Require Extraction.
Require Import ExtrOcamlBasic.
Extraction Language OCaml.
Extraction "../ocaml/core/model.ml"
  types_anchor lex_str lex_lines PENMAN_ALTS TRIPLE_ALTS parse iterparse_lines iterparse_str
  parse_triples format format_triples interpret configure.
