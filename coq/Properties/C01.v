(** C01 -- text <-> tree is lossless under every formatting option.
    ONLY statements here; proofs live in Proofs/LexBoundary_lemmas.v and
    Proofs/Roundtrip_lemmas.v.  [wf_tree] and [tokens_of] are defined in
    Spec/WellFormed.v; [format], [parse], [lex_str] are the mirrors of the
    Python in Impl/.  indent : option Z  is None | Some (-1) | Some n. *)
From PM Require Import Spec.WellFormed Proofs.LexBoundary_lemmas Proofs.Roundtrip_lemmas.

(* (1) the token stream of the formatted text is a function of the tree alone *)
Theorem C01_format_lexes : forall t indent compact, wf_tree t = true ->
  map tok_tt (lex_str PENMAN_ALTS (format indent compact t)) = tokens_of t.
Proof. exact format_lexes. Qed.
Print Assumptions C01_format_lexes.

(* (2) the parser, run on ANY token iterator whose (type, text) view starts with
   the token stream of a well-formed tree, returns that tree (node and metadata,
   literally equal, metadata in the same order) and stops right after it: the
   (type, text) view of what remains is the rest [l] *)
Theorem C01_parse_tokens : forall t it l, wf_tree t = true ->
  map tok_tt (it_rest it) = tokens_of t ++ l ->
  exists it', parse_tree it = Ok (t, it') /\ map tok_tt (it_rest it') = l.
Proof. exact parse_tokens. Qed.
Print Assumptions C01_parse_tokens.

(* (3) round trip, tree and metadata, for every indent and compactness *)
Theorem C01_roundtrip : forall t indent compact, wf_tree t = true ->
  parse (format indent compact t) = Ok t.
Proof. exact parse_format_roundtrip. Qed.
Print Assumptions C01_roundtrip.

(* (4) texts produced under different options have the same tokens and differ
   only in the spaces / line feeds between them *)
Theorem C01_options_whitespace : forall t i1 c1 i2 c2, wf_tree t = true ->
  map tok_tt (lex_str PENMAN_ALTS (format i1 c1 t)) = map tok_tt (lex_str PENMAN_ALTS (format i2 c2 t)) /\
  blank_interleave (format i1 c1 t) (map snd (tokens_of t)) /\
  blank_interleave (format i2 c2 t) (map snd (tokens_of t)).
Proof. exact options_whitespace. Qed.
Print Assumptions C01_options_whitespace.

(* (5a) every tree the parser returns for a string is well formed ... *)
Theorem C01_parse_wf : forall s t, parse s = Ok t -> wf_tree t = true.
Proof. exact parse_wf. Qed.
Print Assumptions C01_parse_wf.

(* (5b) ... hence the formatted text of any accepted input is a fixed point of
   parse-then-format: re-parsing gives the SAME tree (node, metadata, metadata
   order), so formatting it again gives the same text *)
Theorem C01_fixpoint : forall s t indent compact, parse s = Ok t ->
  parse (format indent compact t) = Ok t /\
  (forall t', parse (format indent compact t) = Ok t' -> format indent compact t' = format indent compact t).
Proof.
  intros s t indent compact H. split; [exact (parse_fixpoint s t indent compact H)|].
  intros t' H'. rewrite (parse_fixpoint s t indent compact H) in H'. inversion H'. reflexivity.
Qed.
Print Assumptions C01_fixpoint.

(* non-vacuity: a three-level tree with every robustness shape (string concept
   with delimiters and alignment, role alignment, nested empty node under the
   anonymous role, missing target, missing concept, escaped quote, alignment
   list, four metadata entries incl. empty value / empty key / colons) is
   well formed, and the round trip is checked by computation for three option
   settings *)
Definition ex_tree : tree := mkTree (Node (AStr [97]%N) [([47]%N, TAtom (AStr [34;120;40;126;41;34;126;101;46;49]%N)); ([58;65;82;71;48;126;50]%N, TNode (Node (AStr [98]%N) [([47]%N, TAtom (AStr [99]%N)); ([58;112;111;108;97;114;105;116;121]%N, TAtom (AStr [45]%N)); ([58]%N, TNode (Node (ANone) [])); ([58;111;112;49]%N, TAtom (ANone))])); ([58;109;111;100]%N, TNode (Node (AStr [100]%N) [([47]%N, TAtom (ANone))])); ([58;114]%N, TAtom (AStr [34;115;92;34;116;34;126;49;44;50]%N)); ([58;65;82;71;49]%N, TAtom (AStr [98;126;55]%N))]) [([105;100]%N, [49]%N); ([115;110;116]%N, []); ([], [118;32;119]%N); ([107;58]%N, [58;120]%N)].
Example C01_nonvacuous :
  wf_tree ex_tree = true /\
  parse (format (Some (-1)%Z) false ex_tree) = Ok ex_tree /\
  parse (format None true ex_tree) = Ok ex_tree /\
  parse (format (Some 0%Z) true ex_tree) = Ok ex_tree /\
  format None false ex_tree <> format (Some 2%Z) false ex_tree.
Proof. repeat split; try (vm_compute; reflexivity). vm_compute. discriminate. Qed.
