(** C11 — edge reification and dereification are mutually inverse.
    ONLY statements here; proofs live in Proofs/Transform_lemmas.v.

    Vocabulary (Spec/WfGraph.v):
    [wf_graph g]       sources are str, roles carry their colon, every variable
                       owns exactly one instance triple, triples pairwise distinct;
    [epi_ok g]         the epidata dict has distinct keys, every key's source is a
                       variable of g and every Push names a variable of g (true of
                       every decoded graph and of every graph without epidata);
    [no_collapsible m g]  the dereification agenda of g is empty;
    [table_ok_for m g] for every triple with a reifiable role r, first row (c, sr, tr):
                       r, sr, tr are not :instance, sr and tr carry their colon, sr <> tr,
                       sr and tr are not reifiable, and Model.dereify gives r back in the
                       orientation in which reify_edges wrote the triple (inverted-order
                       clause only for the triples it swaps).  [table_ok m (roles_used g)]
                       (both orientations for every role) implies it.
    After the F4 repair the live AMR table satisfies the written-order clause for
    EVERY role and fails the inverted-order clause exactly for :subset / :superset
    (Example [C11_amr_table] below, recomputed from Gen/AmrTable.v on every build). *)
From PM Require Import Spec.WfGraph Proofs.Transform_lemmas Gen.AmrTable.

Definition reifiable_role (m : model) (t : triple) : bool := is_role_reifiable m (trole t).

(* ---- reify_edges ------------------------------------------------------------ *)

(* no triple of the result has a reifiable role *)
Theorem C11_reify_no_reifiable : forall m g g', node_graph g ->
  (forall t, In t (triples g) -> row_shape_ok m (trole t) = true) ->
  reify_edges m g = Ok g' ->
  forall t', In t' (triples g') -> is_role_reifiable m (trole t') = false.
Proof. exact reify_no_reifiable. Qed.
Print Assumptions C11_reify_no_reifiable.

(* the result is the input with every reifiable triple replaced by its three
   triples ([rtriples], colon added), one NEW variable per reified triple: the
   variables are pairwise distinct, spelled _ or _<k>, and are neither variables
   nor targets (constants, concepts) of g.  Fuel of the search is sufficient:
   [reify_edges] is total (C12_reify_edges_total). *)
Theorem C11_reify_fresh : forall m g g', reify_edges m g = Ok g' ->
  exists vs, triples g' = map colonize (rtriples m g (triples g) vs) /\
    length vs = count_reif m (triples g) /\ NoDup vs /\
    forall v, In v vs -> gen_name v /\ is_var g (AStr v) = false /\
                          mem atom_eqb (AStr v) (map ttgt (triples g)) = false.
Proof. exact reify_fresh. Qed.
Print Assumptions C11_reify_fresh.

(* decimal rendering is injective, so _2, _3, ... are pairwise distinct names *)
Theorem C11_fresh_names_distinct : forall a b, fname a = fname b -> a = b.
Proof. exact fname_inj. Qed.
Print Assumptions C11_fresh_names_distinct.

(* the non-reified triples are kept in order (they are exactly the triples of the
   result whose source is an old variable), with their epidata entries; metadata
   and top are kept *)
Theorem C11_reify_keeps_rest : forall m g g', node_graph g -> reify_edges m g = Ok g' ->
  filter (fun t => is_var g (tsrc t)) (triples g') =
    filter (fun t => negb (is_role_reifiable m (trole t))) (triples g) /\
  (forall t, In t (triples g) -> is_role_reifiable m (trole t) = false ->
     dget triple_eqb t (epidata g') = dget triple_eqb t (epidata g)) /\
  gmeta g' = gmeta g /\ graph_top g' = graph_top g.
Proof. exact reify_keeps_rest. Qed.
Print Assumptions C11_reify_keeps_rest.

(* ---- the inverse -------------------------------------------------------------- *)

(* WHOLE structures: the triple list (with order), the top, the metadata, and the
   epidata as a function triple -> marker list.  The marker list of a reified
   triple comes back in canonical order ([canon_epis]: last role alignment,
   target alignments, last Push, POPs); the dict may list its keys in another
   order (the reified triples' keys move to the end) and gains an entry [] for a
   reified triple that had none: neither is observed by [epis_of], i.e. by
   configure / encode, which only ever call epidata.get(t, []). *)
Theorem C11_inverse : forall m g g1 g2,
  wf_graph g -> epi_ok g -> no_collapsible m g -> table_ok_for m g = true ->
  reify_edges m g = Ok g1 -> dereify_edges m g1 = Ok g2 ->
  triples g2 = triples g /\ gtop g2 = graph_top g /\ gmeta g2 = gmeta g /\
  forall k, epis_of g2 k = if reified_key m g k then canon_epis (epis_of g k) else epis_of g k.
Proof. exact inverse_thm. Qed.
Print Assumptions C11_inverse.

(* with markers in the order interpret writes them, the epidata is the same function *)
Theorem C11_inverse_canonical : forall m g g1 g2,
  wf_graph g -> epi_ok g -> no_collapsible m g -> table_ok_for m g = true ->
  (forall t, In t (triples g) -> is_role_reifiable m (trole t) = true ->
     canon_epis (epis_of g t) = epis_of g t) ->
  reify_edges m g = Ok g1 -> dereify_edges m g1 = Ok g2 ->
  triples g2 = triples g /\ graph_top g2 = graph_top g /\ gmeta g2 = gmeta g /\
  forall k, epis_of g2 k = epis_of g k.
Proof. exact inverse_canonical. Qed.
Print Assumptions C11_inverse_canonical.

(* neither transformation can fail, so the round trip always exists *)
Theorem C11_inverse_exists : forall m g,
  wf_graph g -> epi_ok g -> no_collapsible m g -> table_ok_for m g = true ->
  exists g1 g2, reify_edges m g = Ok g1 /\ dereify_edges m g1 = Ok g2 /\
    triples g2 = triples g /\ graph_top g2 = graph_top g /\ gmeta g2 = gmeta g.
Proof. exact inverse_exists. Qed.
Print Assumptions C11_inverse_exists.

Theorem C11_table_ok_sufficient : forall m g, table_ok m (roles_used g) -> table_ok_for m g = true.
Proof. exact table_ok_sufficient. Qed.
Print Assumptions C11_table_ok_sufficient.

(* ---- dereify_edges never collapses the wrong node ------------------------------- *)

(* a node that is the top, or the target of some non-instance triple, or has a
   number of non-instance relations different from two is not in the agenda ... *)
Theorem C11_dereify_never_collapses : forall m g (ag : dict atom agenda_entry) v,
  dereify_agenda m g = Ok ag ->
  (atom_eqb v (top_atom g) = true \/
   mem atom_eqb v (map ttgt (filter (fun t => negb (is_inst t)) (triples g))) = true \/
   length (others_of (triples g) v) <> 2) ->
  dget atom_eqb v ag = None.
Proof. exact dereify_never_collapses. Qed.
Print Assumptions C11_dereify_never_collapses.

(* ... and every triple whose source is not in the agenda is kept *)
Theorem C11_dereify_keeps_others : forall m g g' (ag : dict atom agenda_entry) t,
  dereify_agenda m g = Ok ag -> dereify_edges m g = Ok g' ->
  In t (triples g) -> dget atom_eqb (tsrc t) ag = None -> In (colonize t) (triples g').
Proof. exact dereify_keeps. Qed.
Print Assumptions C11_dereify_keeps_others.

(* ---- the live AMR table --------------------------------------------------------- *)
Definition amr : model := model_of_table amr_table.
Definition amr_reif_roles : list str := dedup str_eqb (map (fun '(r, _, _, _) => r) (reifs amr)).
Definition R_SUBSET : str := [58;115;117;98;115;101;116]%N.             (* :subset *)
Definition R_SUPERSET : str := [58;115;117;112;101;114;115;101;116]%N.  (* :superset *)

Example C11_amr_table :
  forallb (fun r => row_shape_ok amr r && row_plain_ok amr r) amr_reif_roles = true /\
  filter (fun r => negb (row_inv_ok amr r)) amr_reif_roles = [R_SUBSET; R_SUPERSET] /\
  filter (fun r => negb (table_ok_role amr r)) amr_reif_roles = [R_SUBSET; R_SUPERSET].
Proof. vm_compute. auto. Qed.

(* (a / x :mod~1 (b / y~2) :location-of (c / z :ARG0 a) :quant 7), as decoded:
   an aligned edge, an inverted edge, an attribute; three triples get reified *)
Definition c11_ex : graph :=
  mkGraph
    [(AStr [97], [58;105;110;115;116;97;110;99;101], AStr [120]);
     (AStr [97], [58;109;111;100], AStr [98]);
     (AStr [98], [58;105;110;115;116;97;110;99;101], AStr [121]);
     (AStr [99], [58;108;111;99;97;116;105;111;110], AStr [97]);
     (AStr [99], [58;105;110;115;116;97;110;99;101], AStr [122]);
     (AStr [99], [58;65;82;71;48], AStr [97]);
     (AStr [97], [58;113;117;97;110;116], AStr [55])]%N
    (Some (AStr [97]))%N
    [((AStr [97], [58;105;110;115;116;97;110;99;101], AStr [120]), []);
     ((AStr [97], [58;109;111;100], AStr [98]), [RAln [1] (None); Push (AStr [98])]);
     ((AStr [98], [58;105;110;115;116;97;110;99;101], AStr [121]), [Aln [2] (None); Pop]);
     ((AStr [99], [58;108;111;99;97;116;105;111;110], AStr [97]), [Push (AStr [99])]);
     ((AStr [99], [58;105;110;115;116;97;110;99;101], AStr [122]), []);
     ((AStr [99], [58;65;82;71;48], AStr [97]), [Pop]);
     ((AStr [97], [58;113;117;97;110;116], AStr [55]), [])]%N
    [].

Example C11_hypotheses_satisfiable :
  wf_graph c11_ex /\ epi_ok c11_ex /\ no_collapsible amr c11_ex /\ table_ok_for amr c11_ex = true /\
  count_reif amr (triples c11_ex) = 3 /\
  forallb (fun t => negb (reifiable_role amr t) || epis_canonical_b (epis_of c11_ex t)) (triples c11_ex) = true /\
  exists g1 g2, reify_edges amr c11_ex = Ok g1 /\ dereify_edges amr g1 = Ok g2 /\
                length (triples g1) = 13 /\ triples g2 = triples c11_ex /\ epidata g2 <> epidata c11_ex.
Proof.
  vm_compute. repeat split; try reflexivity. eexists. eexists.
  split; [reflexivity|]. split; [reflexivity|]. split; [reflexivity|]. split; [reflexivity|]. discriminate.
Qed.

(* the hypothesis on the table is needed: (b / x :subset-of (a / y)) is wf, has no
   collapsible node, but comes back as (b / x :superset (a / y)) (N4: the AMR table
   is ambiguous for include-91 in the inverted order) *)
Definition c11_ex_subset : graph :=
  mkGraph
    [(AStr [98], [58;105;110;115;116;97;110;99;101], AStr [120]);
     (AStr [97], [58;115;117;98;115;101;116], AStr [98]);
     (AStr [97], [58;105;110;115;116;97;110;99;101], AStr [121])]%N
    (Some (AStr [98]))%N
    [((AStr [98], [58;105;110;115;116;97;110;99;101], AStr [120]), []);
     ((AStr [97], [58;115;117;98;115;101;116], AStr [98]), [Push (AStr [97])]);
     ((AStr [97], [58;105;110;115;116;97;110;99;101], AStr [121]), [Pop])]%N
    [].
Example C11_inverse_needs_table_ok :
  wf_graph c11_ex_subset /\ epi_ok c11_ex_subset /\ no_collapsible amr c11_ex_subset /\
  table_ok_for amr c11_ex_subset = false /\
  exists g1 g2, reify_edges amr c11_ex_subset = Ok g1 /\ dereify_edges amr g1 = Ok g2 /\
    triples g2 = [(AStr [98], INSTANCE, AStr [120]); (AStr [98], R_SUPERSET, AStr [97]);
                  (AStr [97], INSTANCE, AStr [121])]%N.
Proof.
  vm_compute. repeat split; try reflexivity. eexists. eexists.
  split; [reflexivity|]. split; reflexivity.
Qed.
