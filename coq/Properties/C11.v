(** C11 — edge reification and dereification are mutually inverse.
    ONLY statements here; proofs live in Proofs/Transform_lemmas.v. *)
From PM Require Import Spec.WfGraph Proofs.Transform_lemmas.

Theorem C11_reify_keeps_top : forall m g g',
  reify_edges m g = Ok g' -> graph_top g' = graph_top g.
Proof. exact reify_edges_top. Qed.
Print Assumptions C11_reify_keeps_top.
