(** E2E_aln -- C03 / C05 / C06 for graphs whose epidata also holds ALIGNMENT
    markers ([Aln] = surface.Alignment, [RAln] = surface.RoleAlignment).
    ONLY statements here; proofs live in Proofs/Configure_content_aln.v and
    Proofs/EndToEnd_aln.v.  These theorems lift the [layout_only] restriction of
    Properties/C06.v (T2) and Properties/E2E.v (the E2E_C03 theorems).

    Vocabulary.
    [strip_aln_tree t]: every role and every Symbol target of [t] cut at its first
      tilde, every String target cut after its closing dquote -- the cuts of
      [process_role] / [process_atomic] (C06x_strip_is_the_reader_cut).
    [aln_strippable g]: roles hold no tilde; sources and targets are unchanged by
      the cut; a triple carrying an [Aln] marker has [aln_host] ends (a text
      without tilde not starting with a dquote, or a text starting and ending
      with a dquote) and the printed marker holds no dquote.
    [alns_printable g] (boolean): per triple, every alignment marker has at least
      one index and a prefix that is absent, one ASCII letter, or one ASCII letter
      and a period; at most one [Aln] and one [RAln]; no [RAln] on an instance
      triple; an [Aln] only where the target is a text ([AStr]).
    [annot m g]: every triple of [g] (deinverted once, constants by written form)
      with [last_such is_aln] / [last_such is_raln] of its marker list, which is
      what surface.alignments / role_alignments return (E2E_C03x_alignments_read).
    [alignments_kept m g g']: [annot m g'] is [annot] of [textual g], except
      that the [Aln] of some EDGES (non-instance triples whose target is a
      variable) is dropped; role alignments never are. *)
From PM Require Import Spec.WellFormed Spec.WfLayout Spec.GraphEq Impl.Codec Impl.Layout
  Proofs.Configure_content Proofs.EndToEnd_lemmas Proofs.Configure_content_aln Proofs.EndToEnd_aln.

(* ------------------------------------------------------------------ *)
(** * C06 -- T2 for arbitrary epidata *)

(* The placement theorem with the markers carried along, for EVERY epidata and
   without any lexical hypothesis: the configured tree is read off a store
   whose (edge, marker list) pairs are, as a multiset, the triples of the graph
   -- each placed once, as written or inverted -- paired with the non-layout
   markers of that triple, in their order. *)
Theorem C06x_placement_with_markers : forall m g top t,
  configure m g top = Ok t -> triples g <> [] -> roles_have_colon g ->
  exists tp st nm,
    requested_top g top = Some tp /\
    t = mkTree (build (S (length st)) st 0) (gmeta g) /\
    WF [] st nm /\ node_var_at st 0 = tp /\
    exists ios, Forall2 (expressed_i m g) (triples g) ios /\
                Permutation (store_items st) (concat ios).
Proof. exact configure_store_items. Qed.
Print Assumptions C06x_placement_with_markers.

(* what _process_epigraph appends to a role / an atomic target / a node target *)
Theorem C06x_epigraph_text : forall ep r,
  (forall a, apply_epis r (TAtom a) ep =
     (r ++ raln_text ep, TAtom (if existsb is_aln ep then AStr (atom_str a ++ aln_text ep) else a))) /\
  (forall n, apply_epis r (TNode n) ep = (r ++ raln_text ep, TNode n)).
Proof. exact epigraph_text. Qed.
Print Assumptions C06x_epigraph_text.

(* the cutting functions are the cuts of the reader *)
Theorem C06x_strip_is_the_reader_cut :
  (forall r r' ep, process_role r = Ok (r', ep) ->
     r' = if str_eqb r SLASHS then INSTANCE else strip_aln_role r) /\
  (forall a a' ep, process_atomic a = Ok (a', ep) -> a' = strip_aln_atom a).
Proof. exact strip_is_the_reader_cut. Qed.
Print Assumptions C06x_strip_is_the_reader_cut.

(* T2.  [C06_places_each_triple_once] without [layout_only]: whatever Push / POP
   / alignment markers the graph carries, every triple is expressed by exactly
   one branch of the tree with its alignment suffixes cut off. *)
Theorem C06x_places_each_triple_once : forall m g top t,
  configure m g top = Ok t -> triples g <> [] -> roles_have_colon g -> aln_strippable g ->
  exists tp,
    requested_top g top = Some tp /\ node_var (troot t) = tp /\
    NoDup (map akey (tree_node_vars t)) /\
    exists bss, Forall2 (expressed_as m) (triples g) bss /\
                Permutation (tree_triples (strip_aln_tree t)) (concat bss).
Proof. exact configure_places_each_triple_once_aln. Qed.
Print Assumptions C06x_places_each_triple_once.

Theorem C06x_content_independent_of_markers : forall m g top t,
  configure m g top = Ok t -> triples g <> [] -> roles_have_colon g -> aln_strippable g ->
  deinverts m = true -> roles_invertible m g ->
  Permutation (tree_content m (tree_triples (strip_aln_tree t))) (graph_content m g).
Proof. exact configure_content_deinverted_aln. Qed.
Print Assumptions C06x_content_independent_of_markers.

(* T2 + T3 *)
Theorem C06x_markers_never_change_content : forall m g top tp,
  wf_graph m g -> requested_top g top = Some tp -> connected g tp ->
  aln_strippable g -> pushes_name_variables g -> deinverts m = true ->
  exists t, configure m g top = Ok t /\
    node_var (troot t) = tp /\
    NoDup (map akey (tree_node_vars t)) /\
    Permutation (tree_content m (tree_triples (strip_aln_tree t))) (graph_content m g).
Proof. exact configure_total_and_faithful_aln. Qed.
Print Assumptions C06x_markers_never_change_content.

(* the domain of Properties/C06.v is a sub-domain: layout markers only *)
Theorem C06x_layout_only_is_strippable : forall g, layout_only g ->
  (forall x, In x (triples g) -> tilde_free (trole x)) ->
  (forall x, In x (triples g) -> strip_aln_atom (tsrc x) = tsrc x /\ strip_aln_atom (ttgt x) = ttgt x) ->
  aln_strippable g.
Proof. exact layout_only_strippable. Qed.
Print Assumptions C06x_layout_only_is_strippable.

(* ... and so is the domain of the end-to-end theorem *)
Theorem C06x_lexable_is_strippable : forall g,
  atoms_lexable g = true -> alns_printable g = true -> aln_strippable g.
Proof. exact lexable_strippable. Qed.
Print Assumptions C06x_lexable_is_strippable.

(* ------------------------------------------------------------------ *)
(** * C03 -- encode then decode, with alignment markers *)

(* AlignmentMarker: str() then from_string() is the identity on printable markers *)
Theorem E2E_C03x_alignment_print_parse : forall idx pre, aln_printable idx pre = true ->
  aln_from_string (aln_to_string idx pre) = Ok (idx, pre) /\
  wf_align (aln_to_string idx pre) = true.
Proof. exact alignment_print_parse. Qed.
Print Assumptions E2E_C03x_alignment_print_parse.

(* [E2E_C03_roundtrip] / [E2E_C03_decode_encode] without [layout_only]: the graph
   may carry printable alignment markers anywhere.  Triples, top and variables
   come back as before; if moreover no edge is stated twice (once in each
   direction: [distinct_edges]) the alignments come back on their triples, up to
   the loss that the real code announces with a warning: the [Aln] of an edge
   whose target is written as a nested node. *)
Theorem E2E_C03x_roundtrip : forall m g top tp i c,
  wf_graph m g -> requested_top g top = Some tp -> connected g tp ->
  pushes_name_variables g -> deinverts m = true ->
  atoms_lexable g = true -> wf_meta (gmeta g) = true -> alns_printable g = true ->
  exists s t, encode_top m i c g top = Ok s /\ parse s = Ok t /\
    exists g', interpret m t = Ok g' /\ graph_eq m g' (retop (textual g) tp) /\
      (distinct_edges m g -> alignments_kept m g g').
Proof. exact e2e_c03x_roundtrip. Qed.
Print Assumptions E2E_C03x_roundtrip.

Theorem E2E_C03x_decode_encode : forall m g top tp i c,
  wf_graph m g -> requested_top g top = Some tp -> connected g tp ->
  pushes_name_variables g -> deinverts m = true ->
  atoms_lexable g = true -> wf_meta (gmeta g) = true -> alns_printable g = true ->
  exists s g', encode_top m i c g top = Ok s /\ decode m s = Ok g' /\
    graph_eq m g' (retop (textual g) tp) /\
    (distinct_edges m g -> alignments_kept m g g').
Proof. exact e2e_c03x_decode_encode. Qed.
Print Assumptions E2E_C03x_decode_encode.

(* when no [Aln] sits on an edge (a non-instance triple whose target is a
   variable), nothing is lost: the annotated content is exactly that of the
   graph with its numbers read as text *)
Theorem E2E_C03x_no_loss_off_edges : forall m g g',
  alns_on_atoms g = true -> alignments_kept m g g' ->
  Permutation (annot m g') (annot_txt m g).
Proof. exact kept_all. Qed.
Print Assumptions E2E_C03x_no_loss_off_edges.

(* [annot] is stated with [last_such] over [epis_of]; on a decoded graph that is
   what surface.alignments / surface.role_alignments return for the triple *)
Theorem E2E_C03x_alignments_read : forall m t g', interpret m t = Ok g' ->
  forall x, dget triple_eqb x (alignments g') = aln_of g' x /\
            dget triple_eqb x (role_alignments g') = raln_of g' x.
Proof. exact interpret_alignments_read. Qed.
Print Assumptions E2E_C03x_alignments_read.

(* ------------------------------------------------------------------ *)
(** * C05 -- reconfigure and a new top keep the content *)

(* weak connectivity does not depend on the variable it is measured from *)
Theorem C05x_connected_from_any_variable : forall g a v,
  connected g a -> is_var g v = true -> connected g v.
Proof. exact connected_any. Qed.
Print Assumptions C05x_connected_from_any_variable.

(* reconfigure (Push / POP dropped, alignments kept, triples optionally sorted by
   ANY key, stateful keys such as random_order included) succeeds on every
   well-formed connected graph, roots the tree at the requested top, and the tree
   has the content of the graph.  No hypothesis on the Push markers. *)
Theorem C05x_reconfigure_content : forall {K S} (leb : K -> K -> bool) m g top tp
  (key : option (S -> str -> S * K)) (s : S),
  wf_graph m g -> requested_top g top = Some tp -> connected g tp ->
  aln_strippable g -> deinverts m = true ->
  exists t, reconfigure_st leb m g top key s = Ok t /\
    node_var (troot t) = tp /\
    NoDup (map akey (tree_node_vars t)) /\
    Permutation (tree_content m (tree_triples (strip_aln_tree t))) (graph_content m g).
Proof. intros K S. exact (@reconfigure_content_aln K S). Qed.
Print Assumptions C05x_reconfigure_content.

(* configure from ANY variable of a connected well-formed graph succeeds with
   that variable as root and the same content *)
Theorem C05x_retop_content : forall m g a v,
  wf_graph m g -> connected g a -> is_var g v = true ->
  aln_strippable g -> pushes_name_variables g -> deinverts m = true ->
  exists t, configure m g (Some v) = Ok t /\
    node_var (troot t) = v /\
    NoDup (map akey (tree_node_vars t)) /\
    Permutation (tree_content m (tree_triples (strip_aln_tree t))) (graph_content m g).
Proof. exact retop_content_aln. Qed.
Print Assumptions C05x_retop_content.

(* ------------------------------------------------------------------ *)
(** * Non-vacuity (by computation) *)
Require Import Coq.Strings.String.

(* the graph of  (a / x~1 :ARG0~e.2 (b / y) :mod [s]~3 :ARG1-of b~e4,5)  with [s]
   a String: it is NOT layout_only and satisfies every hypothesis *)
Example C06x_hypotheses_satisfiable :
  triples aln_graph <> [] /\ roles_have_colon aln_graph /\ aln_strippable aln_graph /\
  ~ layout_only aln_graph /\
  deinverts default_model = true /\ roles_invertible default_model aln_graph.
Proof. exact aln_graph_hypotheses. Qed.

Example C06x_nonvacuous :
  exists t, configure default_model aln_graph (Some (sym "b")) = Ok t /\
    format (Some 2%Z) false t =
    s2l "(b / y
  :ARG0-of~e.2 (a / x~1
    :mod ""s""~3
    :ARG1-of b~e4,5))" /\
    tree_triples (strip_aln_tree t) =
      [(sym "b", SLASHS, sym "y"); (sym "b", s2l ":ARG0-of", sym "a"); (sym "a", SLASHS, sym "x");
       (sym "a", s2l ":mod", sym """s"""); (sym "a", s2l ":ARG1-of", sym "b")].
Proof. exact aln_graph_configured. Qed.

Example E2E_C03x_hypotheses_satisfiable :
  wf_graph default_model aln_graph /\
  connected aln_graph (sym "a") /\ connected aln_graph (sym "b") /\
  pushes_name_variables aln_graph /\ deinverts default_model = true /\
  atoms_lexable aln_graph = true /\ wf_meta (gmeta aln_graph) = true /\
  alns_printable aln_graph = true /\ distinct_edges default_model aln_graph /\
  ~ layout_only aln_graph.
Proof. exact aln_graph_e2e_hypotheses. Qed.

(* the conclusion of the theorem on the example, from top [b] *)
Example E2E_C03x_nonvacuous :
  exists s g', encode_top default_model (Some 2%Z) false aln_graph (Some (sym "b")) = Ok s /\
    decode default_model s = Ok g' /\
    graph_eq default_model g' (retop (textual aln_graph) (sym "b")) /\
    alignments_kept default_model aln_graph g'.
Proof.
  destruct aln_graph_e2e_hypotheses as (W & _ & Cb & PV & Dm & L & M & AP & DE & _).
  destruct (e2e_c03x_decode_encode default_model aln_graph (Some (sym "b")) (sym "b") (Some 2%Z) false
              W eq_refl Cb PV Dm L M AP) as (s & g' & E & D & Q & A).
  exists s, g'. repeat (split; [assumption|]). exact (A DE).
Qed.

(* ... computed: all three alignments and the role alignment come back *)
Example E2E_C03x_computed :
  exists s g', encode_top default_model (Some 2%Z) false aln_graph (Some (sym "b")) = Ok s /\
    s = s2l "(b / y
  :ARG0-of~e.2 (a / x~1
    :mod ""s""~3
    :ARG1-of b~e4,5))" /\
    decode default_model s = Ok g' /\
    annot default_model g' =
      [(tr "b" ":instance" "y", None, None);
       (tr "a" ":ARG0" "b", None, Some (RAln [2%N] (Some (s2l "e."))));
       (tr "a" ":instance" "x", Some (Aln [1%N] None), None);
       (tr "a" ":mod" """s""", Some (Aln [3%N] None), None);
       (tr "b" ":ARG1" "a", Some (Aln [4%N; 5%N] (Some (s2l "e"))), None)] /\
    Permutation (annot default_model g') (annot_txt default_model aln_graph).
Proof. exact aln_graph_roundtrip_computed. Qed.

(* the loss is real: the alignment 7 of the edge (a :ARG0 b), whose target opens
   a node, is dropped (the implementation logs -epigraphical marker ignored-);
   the role alignment 8 of the same edge and the alignment 9 of the re-entrancy
   survive *)
Example E2E_C03x_loss_on_an_edge :
  exists s g', encode_top default_model (Some 2%Z) false aln_lossy_graph None = Ok s /\
    s = s2l "(a / x
  :ARG0~8 (b / y
    :ARG1 a~9))" /\
    decode default_model s = Ok g' /\
    annot default_model g' =
      [(tr "a" ":instance" "x", None, None);
       (tr "a" ":ARG0" "b", None, Some (RAln [8%N] None));
       (tr "b" ":instance" "y", None, None);
       (tr "b" ":ARG1" "a", Some (Aln [9%N] None), None)] /\
    alns_printable aln_lossy_graph = true /\ alns_on_atoms aln_lossy_graph = false.
Proof. exact aln_lossy_computed. Qed.

(* [distinct_edges] cannot be dropped: an edge stated twice, once in each direction,
   decodes to a duplicated triple whose copies share one epidata entry (the
   implementation logs -ignoring epigraph data for duplicate triple-): role
   alignment 2 is lost and 1 is reported twice *)
Example E2E_C03x_distinct_edges_needed :
  ~ distinct_edges default_model dup_edge_graph /\
  alns_printable dup_edge_graph = true /\ atoms_lexable dup_edge_graph = true /\
  exists s g', encode_top default_model (Some 2%Z) false dup_edge_graph None = Ok s /\
    s = s2l "(a / x
  :ARG1-of~1 (b / y)
  :ARG1-of~2 b)" /\
    decode default_model s = Ok g' /\
    annot default_model g' =
      [(tr "a" ":instance" "x", None, None);
       (tr "b" ":ARG1" "a", None, Some (RAln [1%N] None));
       (tr "b" ":instance" "y", None, None);
       (tr "b" ":ARG1" "a", None, Some (RAln [1%N] None))] /\
    annot_txt default_model dup_edge_graph =
      [(tr "a" ":instance" "x", None, None);
       (tr "b" ":instance" "y", None, None);
       (tr "b" ":ARG1" "a", None, Some (RAln [1%N] None));
       (tr "b" ":ARG1" "a", None, Some (RAln [2%N] None))].
Proof. exact distinct_edges_needed. Qed.

(* C05: reconfigure of the example from top [b] with key=None *)
Example C05x_nonvacuous :
  exists t, reconfigure (K := bool) (fun _ _ => true) default_model aln_graph (Some (sym "b")) None = Ok t /\
    format (Some 2%Z) false t =
    s2l "(b / y
  :ARG0-of~e.2 (a / x~1
    :mod ""s""~3
    :ARG1-of b~e4,5))".
Proof. exact reconfigure_content_nonvacuous. Qed.

Example C05x_hypotheses_satisfiable :
  wf_graph default_model aln_graph /\ connected aln_graph (sym "a") /\
  is_var aln_graph (sym "b") = true /\ aln_strippable aln_graph /\
  pushes_name_variables aln_graph /\ deinverts default_model = true.
Proof.
  destruct aln_graph_e2e_hypotheses as (W & Ca & _ & PV & Dm & _).
  split; [exact W|]. split; [exact Ca|]. split; [reflexivity|]. split; [exact aln_graph_strippable|].
  split; [exact PV|exact Dm].
Qed.
