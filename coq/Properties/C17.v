(** C17 -- calls are pure and deterministic: the theorem family
    RESULTS DO NOT DEPEND ON THE ITERATION ORDER OF PYTHON SETS (hash seed).
    ONLY statements here; proofs live in Proofs/HashSeed_lemmas.v.

    Strength: partial for C17 as a whole (see DESIGN.md, C17): Gallina functions are
    deterministic by construction, so what is proved is that every place where the
    Python iterates a set -- whose order depends on PYTHONHASHSEED -- yields the same
    result for EVERY enumeration of that set (lists related by Permutation).
    Argument preservation, repeated calls, processes and CLI bytes are covered by
    the harness (harness/c17.py) only. *)
From Coq Require Import Permutation.
From PM Require Import Impl.Configure Impl.GraphOps Impl.Errors Proofs.HashSeed_lemmas.

(* layout._configure: [nodemap = {var: None for var in g.variables()}] is a dict whose
   key order is the iteration order of a set.  [configure_ord m g top vars] is
   Impl.Configure.configure with that enumeration made a parameter ... *)
Theorem C17_configure_ord_is_configure : forall m g top,
  configure_ord m g top (variables g) = configure m g top.
Proof. exact configure_ord_variables. Qed.
Print Assumptions C17_configure_ord_is_configure.

(* ... and the outcome (tree, or which exception) is the same for every enumeration:
   the nodemap is only ever read and written by key. *)
Theorem C17_configure_order_independent : forall m g top vars vars',
  Permutation vars vars' -> configure_ord m g top vars = configure_ord m g top vars'.
Proof. exact configure_order_independent. Qed.
Print Assumptions C17_configure_order_independent.

(* Graph.__isub__: [for t in removed: del self.epidata[t]] iterates the set
   [removed = set(other.triples)]; deletions commute.  Generic dict of markers ... *)
Theorem C17_epidata_deletion_order_independent :
  forall (V : Type) (l l' : list triple) (d : dict triple V),
  Permutation l l' ->
  fold_left (fun d k => ddel triple_eqb k d) l d = fold_left (fun d k => ddel triple_eqb k d) l' d.
Proof. exact epidata_deletion_order_independent. Qed.
Print Assumptions C17_epidata_deletion_order_independent.

(* ... and the loop exactly as modelled in Impl/GraphOps.v ([if t in epidata: del]),
   hence the whole result graph of [g -= other] / [g - other] *)
Theorem C17_isub_order_independent : forall l l' a b, Permutation l l' ->
  g_isub_ord l a b = g_isub_ord l' a b.
Proof. exact isub_order_independent. Qed.
Print Assumptions C17_isub_order_independent.

(* Model.errors: [for uvar in sorted(unreachable)] iterates a set made deterministic by
   sorting: the sorted list is the same for every enumeration of the set ... *)
Theorem C17_sorted_is_canonical : forall l l' : list str,
  Permutation l l' -> isort l = isort l'.
Proof. exact sorted_is_canonical. Qed.
Print Assumptions C17_sorted_is_canonical.

(* ... [isort] is the sort used by the model of Model.errors on str variables (the
   domain of Impl/Errors.v: Python raises TypeError when it has to compare None) *)
Theorem C17_sort_atoms_canonical : forall l l' : list str, Permutation l l' ->
  sort_atoms (map AStr l) = map AStr (isort l) /\
  sort_atoms (map AStr l) = sort_atoms (map AStr l').
Proof.
  exact (fun l l' P => conj (sort_atoms_AStr l) (sort_atoms_canonical l l' P)).
Qed.
Print Assumptions C17_sort_atoms_canonical.

(* Graph.variables() returns a set: which atoms are in it is fixed by the triples and
   the top, in whatever order it is enumerated *)
Theorem C17_variables_membership_only : forall g a,
  (mem atom_eqb a (variables g)
   = existsb (fun t => atom_eqb a (tsrc t)) (triples g)
     || match gtop g with Some t => atom_eqb a t | None => false end)
  /\ (forall vars, Permutation (variables g) vars ->
        mem atom_eqb a vars = mem atom_eqb a (variables g)).
Proof. exact variables_membership_only. Qed.
Print Assumptions C17_variables_membership_only.

(* the order on str used by sorted() is a strict total order (what makes it canonical) *)
Theorem C17_str_order_strict_total :
  (forall a, str_ltb a a = false) /\
  (forall a b c, str_ltb a b = true -> str_ltb b c = true -> str_ltb a c = true) /\
  (forall a b, str_ltb a b = false -> str_ltb b a = false -> a = b).
Proof. exact (conj str_ltb_irrefl (conj str_ltb_trans str_ltb_total)). Qed.
Print Assumptions C17_str_order_strict_total.

(* non-vacuity of theorem 1 on (a / x :ARG0 (b / y) :ARG1 (c / z :ARG0 b)): three
   variables, two enumerations that real hash seeds produce (seed 1: a b c, seed 0: c a b),
   one tree *)
Example C17_configure_example :
  variables ex_graph = [ex_a; ex_b; ex_c] /\
  configure_ord default_model ex_graph None [ex_a; ex_b; ex_c] = Ok ex_tree /\
  configure_ord default_model ex_graph None [ex_c; ex_a; ex_b] = Ok ex_tree /\
  configure default_model ex_graph None = Ok ex_tree.
Proof. repeat split; vm_compute; reflexivity. Qed.

Example C17_configure_example_by_theorem :
  configure_ord default_model ex_graph None [ex_c; ex_a; ex_b]
  = configure_ord default_model ex_graph None [ex_a; ex_b; ex_c].
Proof.
  apply C17_configure_order_independent.
  change [ex_a; ex_b; ex_c] with ([ex_a; ex_b] ++ [ex_c]).
  apply Permutation_cons_append.
Qed.

(* sorted(): two enumerations of the set of strings b, a, c *)
Example C17_sorted_example :
  isort [[98]; [97]; [99]]%N = [[97]; [98]; [99]]%N /\
  isort [[99]; [98]; [97]]%N = [[97]; [98]; [99]]%N.
Proof. split; vm_compute; reflexivity. Qed.
