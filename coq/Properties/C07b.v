(** C07b -- the triple conjunction (parse_triples): acceptance = the documented
    conjunction grammar, and WHERE a rejection is reported.
    ONLY statements here; proofs live in Proofs/TriplesPos_lemmas.v.

    Setting: token lists of the TRIPLE_ALTS lexer (what the lexer produces is C08's
    business).  [conj_derives toks trs] is the declarative grammar over TOKENS

      conj   := triple ( CARET triple | triple whose role token starts with a caret )*
      triple := SYMBOL LPAREN first RPAREN
      first  := a,b | a, (SYMBOL|STRING)? | a | a , (SYMBOL|STRING)? | a ,b

    (derives_first / derives_triple / conj_from in the Proofs file); [stops rest]:
    after the last triple comes the end of the input or a token that is not a SYMBOL
    starting with a caret; [conj_viable toks]: toks is a prefix of some derivable
    conjunction.  The parser model is used with the model's own fuel
    [triples_fuel ts = S (length ts)]; no conclusion mentions OutOfFuel. *)
From Coq Require Import Lia.
From PM Require Import Impl.Parse Spec.Grammar Proofs.Parse_lemmas Proofs.TriplesPos_lemmas.

(* ---- acceptance = the grammar ------------------------------------------------ *)

Theorem C07b_triples_sound : forall ts trs,
  parse_triples_loop (triples_fuel ts) (iter_of ts) false [] = Ok trs ->
  exists pre rest, ts = pre ++ rest /\ conj_derives pre trs /\ stops rest.
Proof. exact triples_sound. Qed.
Print Assumptions C07b_triples_sound.

Theorem C07b_triples_complete : forall pre rest trs,
  conj_derives pre trs -> stops rest ->
  parse_triples_loop (triples_fuel (pre ++ rest)) (iter_of (pre ++ rest)) false [] = Ok trs.
Proof. exact triples_complete. Qed.
Print Assumptions C07b_triples_complete.

Theorem C07b_triples_accept_iff : forall ts trs,
  parse_triples_loop (triples_fuel ts) (iter_of ts) false [] = Ok trs <->
  exists pre rest, ts = pre ++ rest /\ conj_derives pre trs /\ stops rest.
Proof. exact triples_accept_iff. Qed.
Print Assumptions C07b_triples_accept_iff.

(* the split, the triples and the unread tokens are unique *)
Theorem C07b_conj_deterministic : forall pre1 trs1 rest1 pre2 trs2 rest2,
  conj_derives pre1 trs1 -> stops rest1 -> conj_derives pre2 trs2 -> stops rest2 ->
  pre1 ++ rest1 = pre2 ++ rest2 ->
  pre1 = pre2 /\ trs1 = trs2 /\ rest1 = rest2.
Proof. exact conj_deterministic. Qed.
Print Assumptions C07b_conj_deterministic.

(* for strings *)
Theorem C07b_parse_triples_accept_iff : forall s trs,
  parse_triples s = Ok trs <->
  exists pre rest, lex_str TRIPLE_ALTS s = pre ++ rest /\ conj_derives pre trs /\ stops rest.
Proof. exact parse_triples_accept_iff. Qed.
Print Assumptions C07b_parse_triples_accept_iff.

(* the hypotheses are satisfiable:  r(a,b) ^ s(c , dquote d dquote) ^t(e ,f)  *)
Example C07b_example_derivable :
  conj_derives ex_conj_toks ex_conj_triples /\
  parse_triples_loop (triples_fuel (ex_conj_toks ++ [RP0])) (iter_of (ex_conj_toks ++ [RP0])) false []
    = Ok ex_conj_triples.
Proof. exact example_conj_derivable. Qed.

(* ---- where the error is reported ---------------------------------------------- *)

(* the reported (line, offset) is that of the FIRST token at which no derivable
   conjunction can continue (everything before it is a viable prefix, with it no
   longer), or -- when the whole input is a viable but not derivable prefix, i.e. input
   ran out -- the END of the last token, (0,0) for no tokens at all *)
Theorem C07b_triples_error_position : forall ts lo off,
  parse_triples_loop (triples_fuel ts) (iter_of ts) false [] = DecodeErr lo off ->
  (exists pre t post, ts = pre ++ t :: post /\ conj_viable pre /\ ~ conj_viable (pre ++ [t]) /\
                      (lo, off) = (tline t, toff t))
  \/ (conj_viable ts /\ (forall trs, ~ conj_derives ts trs) /\ (lo, off) = end_pos ts).
Proof. exact triples_error_position. Qed.
Print Assumptions C07b_triples_error_position.

Theorem C07b_parse_triples_error_position : forall s lo off,
  parse_triples s = DecodeErr lo off ->
  let ts := lex_str TRIPLE_ALTS s in
  (exists pre t post, ts = pre ++ t :: post /\ conj_viable pre /\ ~ conj_viable (pre ++ [t]) /\
                      (lo, off) = (tline t, toff t))
  \/ (conj_viable ts /\ (forall trs, ~ conj_derives ts trs) /\ (lo, off) = end_pos ts).
Proof. exact parse_triples_error_position. Qed.
Print Assumptions C07b_parse_triples_error_position.

(* viability is prefix-closed, so the offending token above is unique *)
Theorem C07b_viable_prefix_closed : forall a b, conj_viable (a ++ b) -> conj_viable a.
Proof. exact conj_viable_prefix. Qed.
Print Assumptions C07b_viable_prefix_closed.

(* the parser is the one-token-per-step automaton (twin of triple_automaton in
   harness/c07.py) on ALL token lists: acceptance, triples, error position *)
Theorem C07b_triples_automaton_agrees : forall ts,
  parse_triples_loop (triples_fuel ts) (iter_of ts) false [] = cres_outcome (recognise_triples ts).
Proof. exact triples_recognise. Qed.
Print Assumptions C07b_triples_automaton_agrees.

(* role(a b): rejected AT b (line 1, offset 7); the tokens before b are a viable prefix,
   with b no longer *)
Example C07b_example_missing_comma :
  lex_str TRIPLE_ALTS ex_missing_comma = ex_mc_pre ++ ex_mc_b :: ex_mc_post /\
  parse_triples ex_missing_comma = DecodeErr (tline ex_mc_b) (toff ex_mc_b) /\
  conj_viable ex_mc_pre /\ ~ conj_viable (ex_mc_pre ++ [ex_mc_b]).
Proof. exact example_missing_comma. Qed.

Example C07b_example_missing_comma_position :
  parse_triples [114;111;108;101;40;97;32;98;41]%N = DecodeErr 1 7.
Proof. vm_compute. reflexivity. Qed.

(* role(a,  : input runs out; reported at the end of the last token (offset 5 + 2) *)
Example C07b_example_runs_out :
  lex_str TRIPLE_ALTS ex_runs_out = ex_ro_toks /\
  parse_triples ex_runs_out = DecodeErr 1 7 /\
  end_pos ex_ro_toks = (1%N, 7%N) /\ conj_viable ex_ro_toks.
Proof. exact example_runs_out. Qed.
