(** E2E -- the string-level statements of C02, C03 and C06, composed from the
    pieces proved for C01 (parse / format), C02 (configure after interpret),
    C04 (interpret without accumulators) and C03 / C06 (T2, T3).
    ONLY statements here; proofs live in Proofs/EndToEnd_lemmas.v.

    Codec (Impl/Codec.v): [decode m s] = parse then interpret;
    [encode_top m indent compact g top] = configure then format;
    [encode m indent compact g] = [encode_top ... None]. *)
From PM Require Import Spec.WellFormed Spec.WfLayout Spec.GraphEq Impl.Codec Proofs.EndToEnd_lemmas.

(* ------------------------------------------------------------------ *)
(** * C02 -- decode then encode is the normal-form text of the input *)

(* For every model, indent and compactness: if the text parses to a tree that
   carries a well-formed layout, decoding succeeds and encoding the decoded
   graph writes exactly the formatted normal form of that tree (the only
   normalisation: an empty concept slot is not written). *)
Theorem E2E_C02_encode_decode : forall m i c s t,
  parse s = Ok t -> wf_layout_tree m t = true ->
  exists g, decode m s = Ok g /\
            encode m i c g = Ok (format i c (drop_empty_concepts t)).
Proof. exact e2e_c02_encode_decode. Qed.
Print Assumptions E2E_C02_encode_decode.

(* the normal form is again a C01-well-formed tree with a well-formed layout,
   and normalising twice is normalising once ... *)
Theorem E2E_C02_normal_form_wf : forall m s t,
  parse s = Ok t -> wf_layout_tree m t = true ->
  wf_tree (drop_empty_concepts t) = true /\
  wf_layout_tree m (drop_empty_concepts t) = true /\
  drop_empty_concepts (drop_empty_concepts t) = drop_empty_concepts t.
Proof. exact e2e_c02_normal_form_wf. Qed.
Print Assumptions E2E_C02_normal_form_wf.

(* ... hence the encoded text is a fixed point: decoding it and encoding again
   gives the same text *)
Theorem E2E_C02_text_fixpoint : forall m i c s t,
  parse s = Ok t -> wf_layout_tree m t = true ->
  let s' := format i c (drop_empty_concepts t) in
  exists g', decode m s' = Ok g' /\ encode m i c g' = Ok s'.
Proof. exact e2e_c02_text_fixpoint. Qed.
Print Assumptions E2E_C02_text_fixpoint.

(* ------------------------------------------------------------------ *)
(** * C03 -- any graph survives encode then decode, from any top

    Hypotheses: those of [C06_markers_never_change_content] (well-formed graph,
    every variable connected to the requested top, epidata = Push / POP markers
    only, Push markers name variables, a model that deinverts) plus the lexical
    side conditions under which the TEXT round trip is the identity:
    [atoms_lexable g] (boolean): every source is a Symbol; every role is a colon
    followed by name characters; every target is None, a Symbol, a String
    lexeme without line break, or a number whose text is a Symbol that is not
    also the name of a variable; and the metadata is well formed ([wf_meta],
    C01).  [textual g]: every number replaced by its text, which is what the
    text round trip does to a number.  [graph_eq] (Spec/GraphEq.v): same top,
    same variables, triples equal as multisets after one deinversion. *)
Theorem E2E_C03_roundtrip : forall m g top tp i c,
  wf_graph m g -> requested_top g top = Some tp -> connected g tp ->
  layout_only g -> pushes_name_variables g -> deinverts m = true ->
  atoms_lexable g = true -> wf_meta (gmeta g) = true ->
  exists s t, encode_top m i c g top = Ok s /\ parse s = Ok t /\
    exists g', interpret m t = Ok g' /\ graph_eq m g' (retop (textual g) tp).
Proof. exact e2e_c03_roundtrip. Qed.
Print Assumptions E2E_C03_roundtrip.

Theorem E2E_C03_decode_encode : forall m g top tp i c,
  wf_graph m g -> requested_top g top = Some tp -> connected g tp ->
  layout_only g -> pushes_name_variables g -> deinverts m = true ->
  atoms_lexable g = true -> wf_meta (gmeta g) = true ->
  exists s g', encode_top m i c g top = Ok s /\ decode m s = Ok g' /\
    graph_eq m g' (retop (textual g) tp).
Proof. exact e2e_c03_decode_encode. Qed.
Print Assumptions E2E_C03_decode_encode.

(* without numeric targets nothing is re-typed *)
Theorem E2E_C03_textual_id : forall g,
  atoms_lexable g = true -> no_number_targets g = true -> textual g = g.
Proof. exact textual_id. Qed.
Print Assumptions E2E_C03_textual_id.

Theorem E2E_C03_roundtrip_no_numbers : forall m g top tp i c,
  wf_graph m g -> requested_top g top = Some tp -> connected g tp ->
  layout_only g -> pushes_name_variables g -> deinverts m = true ->
  atoms_lexable g = true -> wf_meta (gmeta g) = true -> no_number_targets g = true ->
  exists s g', encode_top m i c g top = Ok s /\ decode m s = Ok g' /\ graph_eq m g' (retop g tp).
Proof. exact e2e_c03_roundtrip_no_numbers. Qed.
Print Assumptions E2E_C03_roundtrip_no_numbers.

(* NOT covered (stated, not proved): graphs whose epidata carries alignment
   markers.  T2 ([C06_places_each_triple_once]) is proved under [layout_only]
   only; the missing lemma is T2 for arbitrary epidata together with: the
   alignment suffix [apply_epis] appends is in the printer's normal form and is
   split off again by [process_role] / [process_atomic]. *)

(* ------------------------------------------------------------------ *)
(** * C06 -- the layout error, exactly when the graph is not connected *)

(* weak connectivity from [a] is decidable: [component a] saturates the set of
   variables linked to [a] *)
Theorem E2E_C06_reach_decided : forall g a b,
  reach g a b <-> mem atom_eqb b (component g a) = true.
Proof. exact reach_decided. Qed.
Print Assumptions E2E_C06_reach_decided.

(* for a well-formed graph whose Push markers name variables, configure raises
   the layout error exactly when the requested top is not a variable or some
   triple hangs on a variable that is not connected to it *)
Theorem E2E_C06_error_iff : forall m g top tp,
  wf_graph m g -> pushes_name_variables g -> requested_top g top = Some tp ->
  ((exists k, configure m g top = LayoutErr k) <->
   (is_var g tp = false \/ exists x, In x (triples g) /\ ~ reach g tp (tsrc x))).
Proof. exact e2e_c06_error_iff. Qed.
Print Assumptions E2E_C06_error_iff.

(* the same for the text encoder, which raises nothing else *)
Theorem E2E_C06_encode_error_iff : forall m i c g top tp,
  wf_graph m g -> pushes_name_variables g -> requested_top g top = Some tp ->
  ((exists k, encode_top m i c g top = LayoutErr k) <->
   (is_var g tp = false \/ exists x, In x (triples g) /\ ~ reach g tp (tsrc x))).
Proof. exact e2e_c06_encode_error_iff. Qed.
Print Assumptions E2E_C06_encode_error_iff.

Theorem E2E_C06_encode_outcomes : forall m i c g top,
  (exists s, encode_top m i c g top = Ok s) \/ (exists k, encode_top m i c g top = LayoutErr k).
Proof. exact e2e_c06_encode_outcomes. Qed.
Print Assumptions E2E_C06_encode_outcomes.

(* ------------------------------------------------------------------ *)
(** * Non-vacuity (by computation) *)
From PM Require Import Proofs.Configure_content.
Require Import Coq.Strings.String.

(* C02: a text with an empty concept slot, an inverted re-entrancy, a zero and a
   quoted string holding a tilde and carrying an alignment *)
Example E2E_C02_nonvacuous :
  exists t, parse e2e_c02_text = Ok t /\ wf_layout_tree default_model t = true /\
    drop_empty_concepts t <> t /\
    exists g, decode default_model e2e_c02_text = Ok g /\
      exists s', encode default_model (Some 2%Z) false g = Ok s' /\
                 format (Some 2%Z) false (drop_empty_concepts t) = s'.
Proof.
  destruct e2e_c02_nonvacuous as (t & P & W & N & g & D & E).
  exists t. repeat (split; [assumption|]). exists g. split; [exact D|].
  destruct (e2e_c02_encode_decode default_model (Some 2%Z) false _ t P W) as (g2 & D2 & E2).
  rewrite D in D2. inversion D2; subst g2. eexists. split; [exact E2|reflexivity].
Qed.

(* C03: a graph with a stale Push, a POP, a node without concept, a zero and an
   inverted attribute satisfies every hypothesis from both tops *)
Example E2E_C03_hypotheses_satisfiable :
  wf_graph default_model e2e_graph /\
  connected e2e_graph (sym "a") /\ connected e2e_graph (sym "b") /\
  layout_only e2e_graph /\ pushes_name_variables e2e_graph /\ deinverts default_model = true /\
  atoms_lexable e2e_graph = true /\ wf_meta (gmeta e2e_graph) = true.
Proof. exact e2e_graph_hypotheses. Qed.

Example E2E_C03_nonvacuous :
  exists s g', encode_top default_model (Some 2%Z) false e2e_graph (Some (sym "b")) = Ok s /\
    decode default_model s = Ok g' /\
    graph_eq default_model g' (retop (textual e2e_graph) (sym "b")) /\
    triples g' = [(sym "b", INSTANCE, ANone); tr "a" ":ARG0" "b"; tr "a" ":instance" "x";
                  tr "a" ":quant" "0"; tr "a" ":polarity-of" "-"; tr "b" ":ARG1" "a"].
Proof.
  destruct e2e_graph_hypotheses as (W & _ & Cb & LO & PV & Dm & L & M).
  destruct (e2e_c03_decode_encode default_model e2e_graph (Some (sym "b")) (sym "b") (Some 2%Z) false
              W eq_refl Cb LO PV Dm L M) as (s & g' & E & D & Q).
  exists s, g'. repeat (split; [assumption|]).
  destruct e2e_c03_nonvacuous as (E' & g2 & D2 & T2 & _).
  congruence.
Qed.

(* C06: a top that is not a variable, a connected request, and a disconnected
   graph with its witness triple *)
Example E2E_C06_nonvacuous :
  (exists k, configure default_model e2e_graph (Some (sym "zz")) = LayoutErr k) /\
  is_var e2e_graph (sym "zz") = false /\
  (exists t, configure default_model e2e_graph (Some (sym "b")) = Ok t) /\
  (exists x, In x (triples e2e_disconnected) /\ ~ reach e2e_disconnected (sym "a") (tsrc x)) /\
  configure default_model e2e_disconnected None = LayoutErr 1.
Proof.
  destruct e2e_c06_nonvacuous as (A & B & C). destruct e2e_c06_witness as (D & E).
  repeat (split; [assumption|]). exact E.
Qed.
