(** C15 — graph queries partition the triples; graph set operations are set
    algebra.  ONLY statements here; vocabulary (tmem, class_of, query, sel,
    Sublist, uniq_from, dict_wf, ent, entrants, occurs, new_marker_keys, gop,
    run_ops, eval_ops) and proofs live in Proofs/Graph_lemmas.v; the mirrored
    code is Impl/Graph.v and Impl/GraphOps.v.  Every theorem quantifies over ALL
    graphs: arbitrary triple lists (duplicates, None, numbers), arbitrary _top,
    arbitrary epidata and metadata.  [dict_wf] (pairwise different keys) is the
    representation invariant of a Python dict; it is needed only where stated
    and is preserved by every operation (C15_epidata_wf_preserved). *)
From PM Require Import Impl.GraphOps Proofs.Graph_lemmas.
From Coq Require Import Permutation.

(* instances / edges / attributes are the three classes of a partition of the
   triple list by the classifier class_of: each query is the order-preserving
   filter of its class, their concatenation is a permutation of the triples,
   membership (up to tuple equality) is decided by the class alone, no triple
   is in two of them, and the lengths add up *)
Theorem C15_partition3 : forall g,
  (forall c, query g c = filter (is_class g c) (triples g)) /\
  (forall c, Sublist (query g c) (triples g)) /\
  Permutation (instances g ++ edges g None None None ++ attributes g None None None) (triples g) /\
  (forall t c, tmem t (query g c) = tmem t (triples g) && is_class g c t) /\
  (forall t c1 c2, tmem t (query g c1) = true -> tmem t (query g c2) = true -> c1 = c2) /\
  length (instances g) + length (edges g None None None) + length (attributes g None None None)
  = length (triples g).
Proof. exact partition3. Qed.
Print Assumptions C15_partition3.

(* a variable is a source of some triple or the explicit top *)
Theorem C15_variables_spec : forall g a,
  is_var g a = mem atom_eqb a (map tsrc (triples g))
               || match gtop g with Some v => atom_eqb a v | None => false end.
Proof. exact is_var_spec. Qed.
Print Assumptions C15_variables_spec.

(* edges = the non-instance triples whose target is a variable (and that match
   the filter); attributes = the non-instance triples whose target is not *)
Theorem C15_edges_spec : forall g,
  (forall s r t, edges g s r t =
     filter (fun x => sel s r t x && (negb (str_eqb (trole x) INSTANCE) && is_var g (ttgt x))) (triples g)) /\
  edges g None None None =
     filter (fun x => negb (str_eqb (trole x) INSTANCE) && is_var g (ttgt x)) (triples g) /\
  (forall x, In x (edges g None None None) <->
     In x (triples g) /\ trole x <> INSTANCE /\ is_var g (ttgt x) = true) /\
  (forall s r t, attributes g s r t =
     filter (fun x => sel s r t x && (negb (str_eqb (trole x) INSTANCE) && negb (is_var g (ttgt x)))) (triples g)).
Proof. exact edges_spec. Qed.
Print Assumptions C15_edges_spec.

(* a filtered query is the sub-list of the unfiltered one selected exactly by
   the given source / role / target *)
Theorem C15_filter_sublist : forall g s r t,
  filter_triples g s r t = filter (sel s r t) (triples g) /\
  edges g s r t = filter (sel s r t) (edges g None None None) /\
  attributes g s r t = filter (sel s r t) (attributes g None None None) /\
  Sublist (edges g s r t) (edges g None None None) /\
  Sublist (attributes g s r t) (attributes g None None None) /\
  Sublist (filter_triples g s r t) (triples g).
Proof. exact filter_sublist. Qed.
Print Assumptions C15_filter_sublist.

(* the top property: the explicit top, else the first triple's source, else None *)
Theorem C15_implicit_top : forall g,
  (forall v, gtop g = Some v -> graph_top g = Some v) /\
  (forall t ts, gtop g = None -> triples g = t :: ts -> graph_top g = Some (tsrc t)) /\
  (gtop g = None -> triples g = [] -> graph_top g = None).
Proof. exact implicit_top. Qed.
Print Assumptions C15_implicit_top.

(* assigning a top that is not None and not a variable raises GraphError *)
Theorem C15_set_top_refuses : forall g v,
  v <> ANone -> is_var g v = false -> set_top g v = GraphErr.
Proof. exact set_top_refuses. Qed.
Print Assumptions C15_set_top_refuses.

(* ... and every other assignment is accepted, changes only _top, and the
   assigned variable then is the top and still a variable *)
Theorem C15_set_top_accepts : forall g v, v = ANone \/ is_var g v = true ->
  exists g', set_top g v = Ok g' /\ triples g' = triples g /\ epidata g' = epidata g /\ gmeta g' = gmeta g /\
             gtop g' = match v with ANone => None | _ => Some v end /\
             (v <> ANone -> graph_top g' = Some v /\ is_var g' v = true).
Proof. exact set_top_accepts. Qed.
Print Assumptions C15_set_top_accepts.

(* reentrancies()[v] = (in-degree of v over edges() + 1 if v is the top) - 1,
   listed exactly when that sum is at least 2 *)
Theorem C15_reentrancies_spec : forall g v,
  dget atom_eqb v (reentrancies g) = if N.leb 2 (ent g v) then Some (ent g v - 1)%N else None.
Proof. exact reentrancies_spec. Qed.
Print Assumptions C15_reentrancies_spec.

(* the result has pairwise different keys, in first-increment order (top first,
   then edge targets in triple order) *)
Theorem C15_reentrancies_order : forall g,
  dict_wf atom_eqb (reentrancies g) /\
  dkeys (reentrancies g) = filter (fun v => N.leb 2 (ent g v)) (uniq_from atom_eqb [] (entrants g)).
Proof. exact reentrancies_order. Qed.
Print Assumptions C15_reentrancies_order.

(* a | b: the triples of a, then those triples of b that are not in a, in b's
   order (a triple of b that is new and occurs twice in b is added twice);
   metadata cleared; _top is the left operand's *)
Theorem C15_or_spec : forall a b,
  triples (g_or a b) = triples a ++ filter (fun t => negb (tmem t (triples a))) (triples b) /\
  Sublist (triples a) (triples (g_or a b)) /\
  gmeta (g_or a b) = [] /\ gtop (g_or a b) = gtop a.
Proof. exact or_spec. Qed.
Print Assumptions C15_or_spec.

(* markers of a | b: a's dictionary updated with (markers of the new triples, in
   b's triple order) and then with ALL of b's entries; hence the key order is
   a's keys, then new keys in that order; and a lookup gives b's markers where b
   has some, a's otherwise.  The in-place form builds the same dictionary. *)
Theorem C15_or_epidata : forall a b,
  epidata (g_or a b) = dupdate triple_eqb (epidata a) (new_marker_pairs a b ++ epidata b) /\
  epidata (g_ior a b) = epidata (g_or a b) /\
  dkeys (epidata (g_or a b)) =
    dkeys (epidata a) ++ uniq_from triple_eqb (dkeys (epidata a)) (new_marker_keys a b ++ dkeys (epidata b)) /\
  (dict_wf triple_eqb (epidata b) ->
   forall t, dget triple_eqb t (epidata (g_or a b)) =
             match dget triple_eqb t (epidata b) with
             | Some l => Some l
             | None => dget triple_eqb t (epidata a)
             end).
Proof. exact or_epidata. Qed.
Print Assumptions C15_or_epidata.

(* a - b: a's triples not in b, in order; metadata cleared; an explicit top is
   kept iff it still occurs as source or target of a remaining triple; the
   markers of removed triples are dropped and nothing else changes *)
Theorem C15_sub_spec : forall a b,
  triples (g_sub a b) = filter (fun t => negb (tmem t (triples b))) (triples a) /\
  Sublist (triples (g_sub a b)) (triples a) /\
  gmeta (g_sub a b) = [] /\
  gtop (g_sub a b) = match gtop a with
                     | Some v => if occurs v (triples (g_sub a b)) then Some v else None
                     | None => None
                     end /\
  (dict_wf triple_eqb (epidata a) ->
   epidata (g_sub a b) = filter (fun kv => negb (tmem (fst kv) (triples b))) (epidata a)).
Proof. exact sub_spec. Qed.
Print Assumptions C15_sub_spec.

(* __isub__ iterates over a Python set: whatever order it is visited in, the
   result is the same *)
Theorem C15_sub_order_irrelevant : forall order a b, dict_wf triple_eqb (epidata a) ->
  (forall t, tmem t order = tmem t (triples b)) -> g_isub_ord order a b = g_isub a b.
Proof. exact isub_order_irrelevant. Qed.
Print Assumptions C15_sub_order_irrelevant.

(* the in-place forms compute the same triples, markers and top as the pure
   forms; they keep the metadata, the pure forms clear it; the top of a union is
   the left operand's _top *)
Theorem C15_inplace_same : forall a b,
  (triples (g_ior a b) = triples (g_or a b) /\ epidata (g_ior a b) = epidata (g_or a b) /\
   gtop (g_ior a b) = gtop (g_or a b) /\ gtop (g_or a b) = gtop a /\
   gmeta (g_ior a b) = gmeta a /\ gmeta (g_or a b) = []) /\
  (triples (g_isub a b) = triples (g_sub a b) /\ epidata (g_isub a b) = epidata (g_sub a b) /\
   gtop (g_isub a b) = gtop (g_sub a b) /\
   gmeta (g_isub a b) = gmeta a /\ gmeta (g_sub a b) = []).
Proof. exact inplace_same. Qed.
Print Assumptions C15_inplace_same.

(* the dict invariant is preserved by all four operations *)
Theorem C15_epidata_wf_preserved : forall a b, dict_wf triple_eqb (epidata a) ->
  dict_wf triple_eqb (epidata (g_ior a b)) /\ dict_wf triple_eqb (epidata (g_or a b)) /\
  dict_wf triple_eqb (epidata (g_isub a b)) /\ dict_wf triple_eqb (epidata (g_sub a b)).
Proof. exact epidata_wf_preserved. Qed.
Print Assumptions C15_epidata_wf_preserved.

(* ---- set algebra on the triples ---- *)
Theorem C15_mem_or : forall a b t,
  tmem t (triples (g_or a b)) = tmem t (triples a) || tmem t (triples b).
Proof. exact mem_or. Qed.
Print Assumptions C15_mem_or.

Theorem C15_mem_sub : forall a b t,
  tmem t (triples (g_sub a b)) = tmem t (triples a) && negb (tmem t (triples b)).
Proof. exact mem_sub. Qed.
Print Assumptions C15_mem_sub.

(* a | a is a, even as a list, and == a *)
Theorem C15_or_idem : forall a,
  triples (g_or a a) = triples a /\ gtop (g_or a a) = gtop a /\ graph_eq_py (g_or a a) a = true.
Proof. exact or_idem. Qed.
Print Assumptions C15_or_idem.

(* (a | b) - b is a - b (as a list), a subset of a *)
Theorem C15_or_sub_subset : forall a b,
  triples (g_sub (g_or a b) b) = triples (g_sub a b) /\
  set_sub (triples (g_sub (g_or a b) b)) (triples a).
Proof. exact or_sub_subset. Qed.
Print Assumptions C15_or_sub_subset.

(* (a - b) | b contains a *)
Theorem C15_sub_or_superset : forall a b, set_sub (triples a) (triples (g_or (g_sub a b) b)).
Proof. exact sub_or_superset. Qed.
Print Assumptions C15_sub_or_superset.

Theorem C15_sub_self_empty : forall a, triples (g_sub a a) = [] /\ gtop (g_sub a a) = None.
Proof. exact sub_self_empty. Qed.
Print Assumptions C15_sub_self_empty.

(* union is associative on triples, as lists and therefore as sets *)
Theorem C15_or_assoc : forall a b c,
  triples (g_or (g_or a b) c) = triples (g_or a (g_or b c)) /\
  set_eq (triples (g_or (g_or a b) c)) (triples (g_or a (g_or b c))).
Proof. exact or_assoc. Qed.
Print Assumptions C15_or_assoc.

Theorem C15_or_comm_set : forall a b, set_eq (triples (g_or a b)) (triples (g_or b a)).
Proof. exact or_comm_set. Qed.
Print Assumptions C15_or_comm_set.

(* every finite sequence of | |= - -= : the resulting triple SET is the
   set-algebra evaluation of the sequence *)
Theorem C15_sequences : forall ops g t,
  tmem t (triples (run_ops g ops)) = eval_ops t (tmem t (triples g)) ops.
Proof. exact sequences. Qed.
Print Assumptions C15_sequences.

Theorem C15_eq_refl : forall a, graph_eq_py a a = true.
Proof. exact eq_refl_py. Qed.
Print Assumptions C15_eq_refl.

(* non-vacuity: the hypotheses ([dict_wf], a refused / accepted top, a dropped /
   kept top, duplicates, concept = variable, None target) all occur on concrete
   graphs, with the values the implementation computes *)
Theorem C15_examples :
  instances Ex.g1 = [Ex.t_inst] /\
  edges Ex.g1 None None None = [Ex.t_ab; Ex.t_ba; Ex.t_ab] /\
  attributes Ex.g1 None None None = [Ex.t_ax; Ex.t_an] /\
  edges Ex.g1 (Some Ex.va) None (Some Ex.vb) = [Ex.t_ab; Ex.t_ab] /\
  graph_top Ex.g1 = Some Ex.va /\
  reentrancies Ex.g1 = [(Ex.va, 1%N); (Ex.vb, 1%N)] /\
  set_top Ex.g1 Ex.vz = GraphErr /\
  set_top Ex.g1 Ex.vb = Ok (with_top Ex.g1 (Some Ex.vb)) /\
  dict_wf triple_eqb (epidata Ex.ga) /\ dict_wf triple_eqb (epidata Ex.gb) /\
  g_or Ex.ga Ex.gb =
    mkGraph [Ex.t_inst; Ex.t_ab; Ex.t_ab; Ex.t_ax] (Some Ex.va)
            [(Ex.t_inst, []); (Ex.t_ab, [Pop; Pop]); (Ex.t_ax, [Pop])] [] /\
  gmeta (g_ior Ex.ga Ex.gb) = gmeta Ex.ga /\
  g_sub Ex.gs Ex.rm = mkGraph [Ex.t_ax] None [(Ex.t_ax, [])] [] /\
  g_sub Ex.gt Ex.rm = mkGraph [Ex.t_ab] (Some Ex.vb) [] [] /\
  run_ops Ex.ga [OpIor Ex.gb; OpSub Ex.rm; OpIsub Ex.ga; OpOr Ex.gt] =
    mkGraph [Ex.t_ab; Ex.t_ab; Ex.t_ax; Ex.t_bx] (Some Ex.va) [(Ex.t_ab, [Pop; Pop]); (Ex.t_ax, [Pop])] [] /\
  graph_eq_py Ex.ga Ex.gb = false.
Proof. exact examples. Qed.
Print Assumptions C15_examples.
