(** C20b -- byte idempotence of the penman command for the option sets that
    Properties/C20.v leaves to the oracle: --rearrange KEYS, --make-variables FMT,
    and both together (any --indent / --compact, any model, stdin).
    ONLY statements here; proofs and the vocabulary live in Proofs/CliIdem_lemmas.v.

    Vocabulary (Proofs/CliIdem_lemmas.v):
      tree_opts_only o   no --canonicalize-roles / --reify-edges / --dereify-edges /
                         --reify-attributes / --indicate-branches / --reconfigure /
                         --check / --triples: what is left is --rearrange,
                         --make-variables and the formatting options;
      rearrange_only o   tree_opts_only and no (or an empty) --make-variables;
      relabel_only o     tree_opts_only and no (or an empty) --rearrange;
      RA o t             the rearrange stage of the command as a total function:
                         rearrange(t, key=[f(role) for f in KEYS], attributes_first=...)
                         or t itself when the option is absent.  Every key name but
                         random is covered (the type ukey has no random);
      relabel_ok ia lo fmt t   C10's provisos for the tree that is relabelled, in
                         decidable form: every new name of the naming rule
                         (C10b: spec_names) is a Symbol of the grammar, and no
                         constant is spelled like a new name (C10: no_collision);
      cli_relabel_ok o fmt t   the same with the command's str.isalpha / str.lower;
      cli_relabelled o fmt t   t renamed by the map of the naming rule (C10b);
      sk_leb2            a total preorder on ALL composite key values that coincides
                         with the command's comparison on the keys it builds.

    Input well-formedness is that of C20_plain_idempotent: every input tree is
    wf_tree (C01) and wf_layout_tree (C02).  The provisos on the new names are
    necessary: on /repo, --make-variables with the format {j} alone writes the
    empty variable (the first pass prints an empty pair of parentheses for every graph), a format with a
    blank or a leading hash writes variables the second pass cannot read. *)
From PM Require Import Spec.Pipeline Spec.WellFormed Spec.WfLayout.
From PM Require Import Proofs.Rearrange_lemmas Proofs.ResetVars_lemmas Proofs.ResetNaming_lemmas
  Proofs.Cli_lemmas Proofs.CliIdem_lemmas.
From Coq Require Import Sorting.Sorted.

(* ------------------------------------------------------------------ *)
(** * Components *)

(* the comparison of the command's composite keys (lists of per-function keys;
   values of different shape compare as equal, Python would raise TypeError) is,
   on the keys the command builds, a total preorder defined on all key values:
   the C05 theorems apply to it *)
Theorem C20b_cli_key_order :
  (forall m funcs r1 r2,
     sort_key_leb (sort_key m funcs r1) (sort_key m funcs r2) =
     sk_leb2 (sort_key m funcs r1) (sort_key m funcs r2)) /\
  total sk_leb2 /\ transitive sk_leb2.
Proof. split; [exact sort_key_leb_agree | split; [exact sk_leb2_total | exact sk_leb2_transitive]]. Qed.
Print Assumptions C20b_cli_key_order.

(* C05: a tree that is sorted at every node is left alone by rearrange ... *)
Theorem C20b_sorted_tree_is_fixed : forall {K} (leb : K -> K -> bool) (k : str -> K) (vars : list atom),
  total leb -> transitive leb ->
  forall n, all_sorted leb k vars n -> rn leb k vars n = n.
Proof. intros K. exact (@rn_fixed K). Qed.
Print Assumptions C20b_sorted_tree_is_fixed.

(* ... hence rearranging twice is rearranging once, with or without
   attributes_first (the variable set is the same set after rearranging), for
   every pure key with a total preorder and for the command's composite keys *)
Theorem C20b_rearrange_twice : forall {K} (leb : K -> K -> bool) (k : str -> K) af t,
  total leb -> transitive leb ->
  rearrange leb (Some k) af (rearrange leb (Some k) af t) = rearrange leb (Some k) af t.
Proof. intros K. exact (@rearrange_idem K). Qed.
Print Assumptions C20b_rearrange_twice.

Theorem C20b_rearrange_twice_cli : forall m funcs af t,
  rearrange sort_key_leb (Some (sort_key m funcs)) af
    (rearrange sort_key_leb (Some (sort_key m funcs)) af t)
  = rearrange sort_key_leb (Some (sort_key m funcs)) af t.
Proof. exact rearrange_cli_idem. Qed.
Print Assumptions C20b_rearrange_twice_cli.

(* rearranging (any pure key) preserves the well-formedness of the input in the
   senses of C01 and C02, and the normal form (no empty concept slot) *)
Theorem C20b_rearrange_preserves_wf : forall {K} (leb : K -> K -> bool) (k : str -> K) af m t,
  (wf_tree t = true -> wf_tree (rearrange leb (Some k) af t) = true) /\
  (wf_layout_tree m t = true -> wf_layout_tree m (rearrange leb (Some k) af t) = true) /\
  (wf_tree t = true -> drop_empty_concepts t = t ->
   drop_empty_concepts (rearrange leb (Some k) af t) = rearrange leb (Some k) af t).
Proof.
  intros K leb k af m t. split; [exact (@rearrange_wf_tree K leb k af t)|].
  split; [exact (@rearrange_wf_layout K leb k af m t) | exact (@rearrange_dec_fixed K leb k af t)].
Qed.
Print Assumptions C20b_rearrange_preserves_wf.

(* C10: relabelling a relabelled tree is the identity -- under the hypotheses of
   C10_terminates only (a format with an index, every node has a variable) *)
Theorem C20b_relabel_twice : forall is_alpha lower ps, uses_index ps = true ->
  forall t t1, all_vars (troot t) = true ->
  reset_variables is_alpha lower ps t = Ok t1 ->
  reset_variables is_alpha lower ps t1 = Ok t1.
Proof. exact reset_twice. Qed.
Print Assumptions C20b_relabel_twice.

(* ... because the naming rule (C10b) gives the relabelled tree the same names,
   attached to themselves *)
Theorem C20b_names_of_relabelled : forall is_alpha lower ps, uses_index ps = true ->
  forall t,
  spec_names is_alpha lower ps (mkTree (rename_node (spec_names is_alpha lower ps t) (troot t)) (tmeta t)) =
  combine (map AStr (spec_name_list is_alpha lower ps t)) (spec_name_list is_alpha lower ps t).
Proof. exact spec_names_of_renamed. Qed.
Print Assumptions C20b_names_of_relabelled.

(* relabelling preserves well-formedness (C01: the new names are Symbols; C02:
   the renaming is injective and no constant is spelled like a new name) and the
   normal form; the result is left alone by a second relabelling *)
Theorem C20b_relabel_preserves_wf : forall is_alpha lower ps, uses_index ps = true ->
  forall m t, wf_tree t = true -> wf_layout_tree m t = true -> drop_empty_concepts t = t ->
  relabel_ok is_alpha lower ps t = true ->
  let t2 := mkTree (rename_node (spec_names is_alpha lower ps t) (troot t)) (tmeta t) in
  reset_variables is_alpha lower ps t = Ok t2 /\
  wf_tree t2 = true /\ wf_layout_tree m t2 = true /\ drop_empty_concepts t2 = t2 /\
  reset_variables is_alpha lower ps t2 = Ok t2.
Proof. exact relabel_preserves. Qed.
Print Assumptions C20b_relabel_preserves_wf.

(* relabelling a sorted tree keeps it sorted: the relabelled output of the
   rearrange stage is left alone by the rearrange stage *)
Theorem C20b_relabel_keeps_sorted : forall o fmt t0, uses_index fmt = true ->
  wf_tree t0 = true -> wf_layout_tree (o_model o) t0 = true ->
  cli_relabel_ok o fmt (RA o t0) = true ->
  RA o (cli_relabelled o fmt (RA o t0)) = cli_relabelled o fmt (RA o t0).
Proof. exact RA_relabelled_fixed. Qed.
Print Assumptions C20b_relabel_keeps_sorted.

(* from per-tree fixed points to the stream, status included, for every option
   set without --check and --triples (C20_idempotence_reduces_to_trees) *)
Theorem C20b_stream_from_trees : forall o s out code,
  o_triples o = false -> o_check o = false ->
  Forall (fun t => exists t1, pre_format o t = Ok t1 /\ wf_tree t1 = true /\
                              pipeline o t1 = Ok (format (o_indent o) (o_compact o) t1))
         (fst (iterparse_str s)) ->
  run o [] s = Ok (out, code) -> run o [] out = Ok (out, code).
Proof. exact stream_idempotent_from_trees. Qed.
Print Assumptions C20b_stream_from_trees.

(* ------------------------------------------------------------------ *)
(** * 1. --rearrange KEYS *)

(* the per-tree fixed point: pass 1 formats t1 = rearrange (normal form of t),
   which is again well formed and which the pipeline maps to its own text *)
Theorem C20b_rearrange_tree_fixed : forall o t, rearrange_only o = true ->
  wf_tree t = true -> wf_layout_tree (o_model o) t = true ->
  let t1 := RA o (drop_empty_concepts t) in
  pre_format o t = Ok t1 /\ wf_tree t1 = true /\ wf_layout_tree (o_model o) t1 = true /\
  pipeline o t1 = Ok (format (o_indent o) (o_compact o) t1).
Proof. exact rearrange_tree_fixed. Qed.
Print Assumptions C20b_rearrange_tree_fixed.

(* the second pass reproduces the first byte for byte *)
Theorem C20b_rearrange_idempotent : forall o s out code, rearrange_only o = true ->
  Forall (fun t => wf_tree t = true /\ wf_layout_tree (o_model o) t = true) (fst (iterparse_str s)) ->
  run o [] s = Ok (out, code) -> run o [] out = Ok (out, code).
Proof. exact rearrange_idempotent. Qed.
Print Assumptions C20b_rearrange_idempotent.

(* ------------------------------------------------------------------ *)
(** * 2. --make-variables FMT *)

Theorem C20b_make_variables_idempotent : forall o fmt s out code, relabel_only o = true ->
  o_make_variables o = Some fmt -> uses_index fmt = true ->
  Forall (fun t => wf_tree t = true /\ wf_layout_tree (o_model o) t = true /\
                   cli_relabel_ok o fmt (drop_empty_concepts t) = true) (fst (iterparse_str s)) ->
  run o [] s = Ok (out, code) -> run o [] out = Ok (out, code).
Proof. exact make_variables_idempotent. Qed.
Print Assumptions C20b_make_variables_idempotent.

(* ------------------------------------------------------------------ *)
(** * 3. --rearrange KEYS --make-variables FMT (either may be absent) *)

Theorem C20b_rearrange_make_variables_tree_fixed : forall o fmt t, tree_opts_only o = true ->
  o_make_variables o = Some fmt -> uses_index fmt = true ->
  wf_tree t = true -> wf_layout_tree (o_model o) t = true ->
  cli_relabel_ok o fmt (RA o (drop_empty_concepts t)) = true ->
  let t2 := cli_relabelled o fmt (RA o (drop_empty_concepts t)) in
  pre_format o t = Ok t2 /\ wf_tree t2 = true /\ wf_layout_tree (o_model o) t2 = true /\
  pipeline o t2 = Ok (format (o_indent o) (o_compact o) t2).
Proof. exact rearrange_relabel_tree_fixed. Qed.
Print Assumptions C20b_rearrange_make_variables_tree_fixed.

Theorem C20b_rearrange_and_make_variables : forall o fmt s out code, tree_opts_only o = true ->
  o_make_variables o = Some fmt -> uses_index fmt = true ->
  Forall (fun t => wf_tree t = true /\ wf_layout_tree (o_model o) t = true /\
                   cli_relabel_ok o fmt (RA o (drop_empty_concepts t)) = true) (fst (iterparse_str s)) ->
  run o [] s = Ok (out, code) -> run o [] out = Ok (out, code).
Proof. exact rearrange_make_variables_idempotent. Qed.
Print Assumptions C20b_rearrange_and_make_variables.

(* ------------------------------------------------------------------ *)
(** * Non-vacuity: hypotheses and conclusions computed on real runs of the tool
      (the output texts are what /repo prints; two graphs, metadata, an empty
      concept slot, an inverted re-entrancy, attributes between edges) *)

(* --rearrange attributes-first,canonical,inverted-last *)
Example C20b_rearrange_nonvacuous :
  rearrange_only ex20b_ra = true /\
  forallb (fun t => wf_tree t && wf_layout_tree (o_model ex20b_ra) t) (fst (iterparse_str ex20b_in)) = true /\
  length (fst (iterparse_str ex20b_in)) = 2 /\
  run ex20b_ra [] ex20b_in = Ok (ex20b_ra_out, false) /\
  run ex20b_ra [] ex20b_ra_out = Ok (ex20b_ra_out, false) /\
  ex20b_in <> ex20b_ra_out.
Proof. exact rearrange_nonvacuous. Qed.

(* --make-variables {prefix}{j} *)
Example C20b_make_variables_nonvacuous :
  relabel_only ex20b_mv = true /\ o_make_variables ex20b_mv = Some [Prefix; Jdx] /\
  uses_index [Prefix; Jdx] = true /\
  forallb (fun t => wf_tree t && wf_layout_tree (o_model ex20b_mv) t &&
                    cli_relabel_ok ex20b_mv [Prefix; Jdx] (drop_empty_concepts t))
          (fst (iterparse_str ex20b_in)) = true /\
  run ex20b_mv [] ex20b_in = Ok (ex20b_mv_out, false) /\
  run ex20b_mv [] ex20b_mv_out = Ok (ex20b_mv_out, false) /\
  ex20b_in <> ex20b_mv_out.
Proof. exact make_variables_nonvacuous. Qed.

(* --indent no --compact --rearrange attributes-first,alphanumeric --make-variables x{i} *)
Example C20b_rearrange_and_make_variables_nonvacuous :
  tree_opts_only ex20b_rm = true /\ o_make_variables ex20b_rm = Some [Lit [120%N]; Idx] /\
  uses_index [Lit [120%N]; Idx] = true /\
  forallb (fun t => wf_tree t && wf_layout_tree (o_model ex20b_rm) t &&
                    cli_relabel_ok ex20b_rm [Lit [120%N]; Idx] (RA ex20b_rm (drop_empty_concepts t)))
          (fst (iterparse_str ex20b_in)) = true /\
  run ex20b_rm [] ex20b_in = Ok (ex20b_rm_out, false) /\
  run ex20b_rm [] ex20b_rm_out = Ok (ex20b_rm_out, false) /\
  ex20b_mv_out <> ex20b_rm_out.
Proof. exact rearrange_make_variables_nonvacuous. Qed.

Example C20b_relabel_twice_nonvacuous :
  all_vars (troot tree_bark) = true /\
  reset_variables latin1_is_alpha latin1_lower fmt_prefix_j tree_bark = Ok tree_bark_reset /\
  reset_variables latin1_is_alpha latin1_lower fmt_prefix_j tree_bark_reset = Ok tree_bark_reset /\
  tree_bark <> tree_bark_reset.
Proof. exact reset_twice_nonvacuous. Qed.
