(** C09b -- dumps / loads without the side condition of [C09_dumps_loads].
    ONLY statements here; proofs live in Proofs/Serialise_lemmas.v.

    [C09_dumps_loads] (Properties/C09.v) is conditional on - every configured
    tree is wf_tree -.  For a graph that satisfies the hypotheses of the
    end-to-end theorem [E2E_C03x_decode_encode] (Properties/E2E_aln.v) with its
    own top -- bundled as [e2e_hyps m g] -- that condition is discharged here.
    A numeric target ([ANum]) is not a [wf_tree] atom, so the literal condition
    is FALSE of such graphs (example below); what holds, and suffices, is that
    the configured tree with every number replaced by its text ([strfy_tree])
    is well formed and formats to the same string.

    [e2e_hyps m g] =  GraphEq.wf_graph m g,  every variable connected to the
    graph's own top,  Push markers name variables,  [atoms_lexable g],
    [wf_meta (gmeta g)],  [alns_printable g]. *)
From PM Require Import Spec.WellFormed Spec.GraphEq Impl.Codec Proofs.Configure_content
  Proofs.EndToEnd_lemmas Proofs.Configure_content_aln Proofs.EndToEnd_aln Proofs.Framing_lemmas.
From PM Require Import Proofs.Serialise_lemmas.

Theorem C09b_e2e_hyps_unfold : forall m g, e2e_hyps m g <->
  (GraphEq.wf_graph m g /\ (exists tp, graph_top g = Some tp /\ GraphEq.connected g tp) /\
   pushes_name_variables g /\ atoms_lexable g = true /\ wf_meta (gmeta g) = true /\
   alns_printable g = true).
Proof. intros. reflexivity. Qed.
Print Assumptions C09b_e2e_hyps_unfold.

(* the configured tree: same text as its number-free form, which is well formed *)
Theorem C09b_configured_tree_wf : forall m g tp i c,
  GraphEq.wf_graph m g -> graph_top g = Some tp -> GraphEq.connected g tp ->
  pushes_name_variables g -> deinverts m = true ->
  atoms_lexable g = true -> wf_meta (gmeta g) = true -> alns_printable g = true ->
  exists t0, configure m g None = Ok t0 /\
    format i c t0 = format i c (strfy_tree t0) /\
    WellFormed.wf_tree (strfy_tree t0) = true.
Proof. exact configured_tree_wf. Qed.
Print Assumptions C09b_configured_tree_wf.

(* dumps succeeds; loading its text succeeds and returns, in order, one graph
   per input graph, each with the content of its input (numbers as text) and,
   when no edge is stated in both directions, its alignments *)
Theorem C09b_dumps_loads_unconditional : forall m i c gs, deinverts m = true ->
  (forall g, In g gs -> e2e_hyps m g) ->
  exists text gs', dumps m i c gs = Ok text /\ loads m text = Ok gs' /\
    Forall2 (fun g g' => graph_eq m g' (textual g) /\
                         (distinct_edges m g -> alignments_kept m g g')) gs gs'.
Proof. exact dumps_loads_unconditional. Qed.
Print Assumptions C09b_dumps_loads_unconditional.

(* the conclusion of [C09_dumps_loads] itself, without its side condition *)
Theorem C09b_dumps_loads_decode_all : forall m i c gs, deinverts m = true ->
  (forall g, In g gs -> e2e_hyps m g) ->
  exists ss, encode_all m i c gs = Ok ss /\
    dumps m i c gs = Ok (join BLANKLINE ss) /\
    loads m (join BLANKLINE ss) = decode_all m ss.
Proof. exact dumps_loads_decode_all. Qed.
Print Assumptions C09b_dumps_loads_decode_all.

(* dump writes that text and a final line feed (nothing for no graph) *)
Theorem C09b_dump_text_unconditional : forall m i c gs, deinverts m = true ->
  (forall g, In g gs -> e2e_hyps m g) ->
  exists ss, encode_all m i c gs = Ok ss /\
    dump_text m i c gs = (match ss with [] => [] | _ => join BLANKLINE ss ++ [10%N] end, Ok tt).
Proof. exact dump_text_unconditional. Qed.
Print Assumptions C09b_dump_text_unconditional.

(* the hypotheses are decidable on concrete graphs *)
Theorem C09b_hyps_checkable : forall m g, serialisable_b m g = true -> e2e_hyps m g.
Proof. exact serialisable_b_sound. Qed.
Print Assumptions C09b_hyps_checkable.

(* ------------------------------------------------------------------ *)
(** * Non-vacuity (by computation) *)
Require Import Coq.Strings.String.
Open Scope string_scope.

(* (c / chapter :mod 7 :ARG0 (d / dog :quant 2)) with 7 and 2 as NUMBERS, and
   the aligned graph of Properties/E2E_aln.v *)
Definition c09b_num (s : string) : atom := ANum (s2l s) false.
Definition c09b_chapter : graph :=
  mkGraph [tr "c" ":instance" "chapter"; (sym "c", s2l ":mod", c09b_num "7"); tr "c" ":ARG0" "d";
           tr "d" ":instance" "dog"; (sym "d", s2l ":quant", c09b_num "2")]
          (Some (sym "c"))
          [(tr "c" ":ARG0" "d", [Push (sym "d")]); ((sym "d", s2l ":quant", c09b_num "2"), [Pop])]
          [(s2l "id", s2l "1")].

Example C09b_hypotheses_satisfiable :
  e2e_hyps default_model c09b_chapter /\ e2e_hyps default_model aln_graph.
Proof. split; apply serialisable_b_sound; vm_compute; reflexivity. Qed.

(* the literal side condition of C09_dumps_loads is false of the first graph:
   its configured tree holds numbers; the number-free tree is well formed *)
Example C09b_literal_condition_fails :
  exists t, configure default_model c09b_chapter None = Ok t /\
    WellFormed.wf_tree t = false /\ WellFormed.wf_tree (strfy_tree t) = true /\
    format (Some 2%Z) false t = format (Some 2%Z) false (strfy_tree t).
Proof. eexists. split; [vm_compute; reflexivity|]. repeat split; vm_compute; reflexivity. Qed.

Example C09b_nonvacuous :
  exists text gs', dumps default_model (Some 2%Z) false [c09b_chapter; aln_graph] = Ok text /\
    text = s2l "# ::id 1
(c / chapter
  :mod 7
  :ARG0 (d / dog
    :quant 2))

(a / x~1
  :ARG0~e.2 (b / y)
  :mod ""s""~3
  :ARG1-of b~e4,5)" /\
    loads default_model text = Ok gs' /\ List.length gs' = 2 /\
    Forall2 (fun g g' => graph_eq default_model g' (textual g)) [c09b_chapter; aln_graph] gs'.
Proof.
  destruct C09b_hypotheses_satisfiable as [H1 H2].
  destruct (dumps_loads_unconditional default_model (Some 2%Z) false [c09b_chapter; aln_graph] eq_refl)
    as (text & gs' & D & Ld & F).
  { intros g [<-|[<-|[]]]; assumption. }
  exists text, gs'. split; [exact D|].
  assert (T : dumps default_model (Some 2%Z) false [c09b_chapter; aln_graph] = Ok (s2l "# ::id 1
(c / chapter
  :mod 7
  :ARG0 (d / dog
    :quant 2))

(a / x~1
  :ARG0~e.2 (b / y)
  :mod ""s""~3
  :ARG1-of b~e4,5)")) by (vm_compute; reflexivity).
  rewrite T in D. inversion D; subst text. split; [reflexivity|]. split; [exact Ld|].
  split.
  - inversion F as [|? ? ? ? ? F1]; subst. inversion F1 as [|? ? ? ? ? F2]; subst. inversion F2; subst. reflexivity.
  - clear - F. induction F as [|g g' l l' [Q _] F IH]; constructor; assumption.
Qed.
