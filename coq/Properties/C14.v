(** C14 — layout diagnostics agree with the text the graph was decoded from.
    ONLY statements here; proofs live in Proofs/Diagnostics_lemmas.v.
    [wf_layout_tree m t] (Spec/Reading.v): alignment suffixes parse; every node
    variable is truthy (not None, not the empty string); every role carries its
    colon (or is the concept sign); no role reads as ":instance" after
    deinversion (":instance-of"); the triples read off the tree are pairwise
    distinct.  Variables need NOT be defined only once for these theorems. *)
From PM Require Import Impl.Interpret Impl.Diagnostics Spec.Reading
  Proofs.Interpret_lemmas Proofs.Diagnostics_lemmas.

(* the context of every triple is the variable of the node whose branch list
   wrote it; never unknown *)
Theorem C14_node_contexts : forall m t g,
  wf_layout_tree m t = true -> interpret m t = Ok g ->
  exists r, reading m t = Ok r /\
            node_contexts g = map (fun it => Some (i_ctx it)) (r_items r).
Proof. exact node_contexts_wf. Qed.
Print Assumptions C14_node_contexts.

(* the pushed variable is the variable of the nested node that branch opened *)
Theorem C14_pushed : forall m t g r it,
  wf_layout_tree m t = true -> interpret m t = Ok g -> reading m t = Ok r ->
  In it (r_items r) -> get_pushed_variable g (i_triple it) = i_opened it.
Proof. exact pushed_wf. Qed.
Print Assumptions C14_pushed.

(* a triple with distinct ends appears inverted exactly when the text wrote it
   from its target's node with an inverted role *)
Theorem C14_appears_inverted : forall m t g r it,
  wf_layout_tree m t = true -> interpret m t = Ok g -> reading m t = Ok r ->
  In it (r_items r) ->
  atom_eqb (tsrc (i_triple it)) (ttgt (i_triple it)) = false ->
  appears_inverted g (i_triple it) = i_winv it.
Proof. exact appears_inverted_wf. Qed.
Print Assumptions C14_appears_inverted.

(* ... and [i_winv] means what it says: the triple's target is the writing node *)
Theorem C14_written_inverted_meaning : forall m vars n k it, In it (node_items m vars n k) ->
  (i_winv it = false /\ tsrc (i_triple it) = i_ctx it) \/
  (i_winv it = true /\ ttgt (i_triple it) = i_ctx it).
Proof. exact item_ctx_side. Qed.
Print Assumptions C14_written_inverted_meaning.

(* ANY graph without markers: the three diagnostics are total functions in the
   model (no outcome type: nothing corresponds to KeyError / IndexError, which
   the harness checks on the implementation) and return exactly: *)
Theorem C14_no_markers_contexts : forall g, epidata g = [] ->
  node_contexts g =
  ctx_prefix (fun t => eligible (variables g) t (top_or_none g)) (top_or_none g) (triples g).
Proof. exact no_markers_contexts. Qed.
Print Assumptions C14_no_markers_contexts.

Theorem C14_no_markers_pushed : forall g t, epidata g = [] -> get_pushed_variable g t = None.
Proof. exact no_markers_pushed. Qed.
Print Assumptions C14_no_markers_pushed.

Theorem C14_no_markers_inverted : forall g t, epidata g = [] ->
  appears_inverted g t =
  negb (str_eqb (trole t) INSTANCE) && is_var g (ttgt t)
  && (negb (atom_eqb (top_or_none g) ANone)
      && existsb (fun t' => triple_eqb t' t)
           (take_while (fun t' => eligible (variables g) t' (top_or_none g)) (triples g))
      && atom_eqb (ttgt t) (top_or_none g)).
Proof. exact no_markers_inverted. Qed.
Print Assumptions C14_no_markers_inverted.

Theorem C14_no_markers_inverted_only_to_top : forall g t, epidata g = [] ->
  appears_inverted g t = true ->
  trole t <> INSTANCE /\ atom_eqb (ttgt t) (top_or_none g) = true /\
  exists t', In t' (triples g) /\ triple_eqb t' t = true.
Proof. exact no_markers_inverted_only_to_top. Qed.
Print Assumptions C14_no_markers_inverted_only_to_top.

(* ---- non-vacuity: the example of the node_contexts docstring ----
   (a / alpha :attr val :ARG0 (b / beta :ARG0 (g / gamma)) :ARG0-of g) *)
Definition sa : atom := AStr [97]%N.
Definition sb : atom := AStr [98]%N.
Definition sg : atom := AStr [103]%N.
Definition ARG0 : str := [58;65;82;71;48]%N.
Definition c14_example : tree :=
  mkTree (Node sa
    [(SLASHS, TAtom (AStr [97;108;112;104;97]%N));
     ([58;97;116;116;114]%N, TAtom (AStr [118;97;108]%N));
     (ARG0, TNode (Node sb
        [(SLASHS, TAtom (AStr [98;101;116;97]%N));
         (ARG0, TNode (Node sg [(SLASHS, TAtom (AStr [103;97;109;109;97]%N))]))]));
     (ARG0 ++ OF, TAtom sg)]) [].
Example C14_nonvacuous :
  wf_layout_tree default_model c14_example = true /\
  exists g, interpret default_model c14_example = Ok g /\
    node_contexts g = [Some sa; Some sa; Some sa; Some sb; Some sb; Some sg; Some sa] /\
    appears_inverted g (sg, ARG0, sa) = true /\
    get_pushed_variable g (sb, ARG0, sg) = Some sg.
Proof. split; [vm_compute; reflexivity|]. eexists. split; [vm_compute; reflexivity|]. vm_compute. auto. Qed.

(* ---- the hypotheses are needed (each replayed on /repo) ---- *)
(* a role without its colon (as in the docstring of interpret): the epigraph is
   keyed by the triple as written, the graph holds the triple with the colon *)
Example C14_colonless_role_loses_context :
  exists g, interpret default_model
              (mkTree (Node sb [([65;82;71;48]%N, TNode (Node sg []))]) []) = Ok g /\
            node_contexts g = [Some sb; Some sb; None] /\
            get_pushed_variable g (sb, ARG0, sg) = None.
Proof. eexists. split; vm_compute; auto. Qed.
(* ":instance-of" deinverts into an instance triple of the OTHER node *)
Example C14_instance_of_loses_context :
  exists g, interpret default_model
              (mkTree (Node sa [(INSTANCE ++ OF, TNode (Node sb []))]) []) = Ok g /\
            node_contexts g = [Some sa; None; None].
Proof. eexists. split; vm_compute; auto. Qed.
