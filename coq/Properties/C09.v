(** C09 -- the same text means the same graphs in every container and stream
    framing.  ONLY statements here; proofs live in Proofs/Framing_lemmas.v
    (which builds on the C01 lemmas).  Containers: one string ([iterparse_str],
    lines split at LF / CRLF / CR), the list of lines WITH their terminators
    ([lines_keepends], what iterating a file opened with newline='' or an
    io.StringIO yields), the universal-newlines translation of a text-mode
    file ([universal_newlines]).  Real files, encodings and the operating
    system are outside the model (covered by the harness, which writes and
    reads real files). *)
From PM Require Import Spec.WellFormed Proofs.Framing_lemmas.

(* concatenation: the renderings of well-formed trees under ANY option setting,
   separated by ANY non-empty run of spaces / line feeds (blank line, single
   newline, single space, ...), parse back to exactly those trees, in order,
   each with exactly its own metadata (every comment block stays attached to
   the tree that follows it), and the generator ends normally *)
Theorem C09_concat : forall sep indent compact ts, blank_sep sep ->
  Forall (fun t => wf_tree t = true) ts ->
  iterparse_str (join sep (map (format indent compact) ts)) = (ts, Ok tt).
Proof. exact iterparse_concat. Qed.
Print Assumptions C09_concat.

(* dumps joins with a blank line; loading that text decodes exactly the encoded
   strings, in order (first error wins as in a list comprehension).  Hypothesis:
   every configured tree is well formed in the sense of C01 (true of graphs
   whose variables, roles and constants are grammar-valid). *)
Theorem C09_dumps_loads : forall m indent compact gs ss, encode_all m indent compact gs = Ok ss ->
  (forall g t, In g gs -> configure m g None = Ok t -> wf_tree t = true) ->
  dumps m indent compact gs = Ok (join BLANKLINE ss) /\
  loads m (join BLANKLINE ss) = decode_all m ss.
Proof. exact dumps_loads. Qed.
Print Assumptions C09_dumps_loads.

(* dump writes the dumps text plus a final line feed, and nothing for no graph *)
Theorem C09_dump_text : forall m indent compact gs ss, encode_all m indent compact gs = Ok ss ->
  dump_text m indent compact gs =
  (match ss with [] => [] | _ => join BLANKLINE ss ++ [10%N] end, Ok tt).
Proof. exact dump_text_ok. Qed.
Print Assumptions C09_dump_text.

(* framing, token level: lexing the string (split at LF / CRLF / CR) and lexing
   its lines WITH their terminators give token lists equal in type, line
   number, offset and text -- except that a COMMENT token of a line whose kept
   terminator starts with CR carries that CR at the end of its text *)
Theorem C09_framing_tokens : forall s,
  Forall2 (fun t1 t2 =>
             tty t1 = tty t2 /\ tline t1 = tline t2 /\ toff t1 = toff t2 /\
             (ttext t2 = ttext t1 \/ (tty t1 = COMMENT /\ ttext t2 = ttext t1 ++ [13%N])))
          (lex_lines PENMAN_ALTS (split_lines s)) (lex_lines PENMAN_ALTS (lines_keepends s)).
Proof. exact framing_tokens. Qed.
Print Assumptions C09_framing_tokens.

(* framing, graph level, for EVERY text s (well formed or not): the three
   containers yield the same trees / graphs (triples, top, epidata, metadata are
   all functions of the tree), and the generator ends normally in all of them
   or with an exception in all of them ([Rend]; only the reported offset of a
   DecodeError positioned right after a CR-carrying comment may differ).
   With LF-only terminators and for the universal-newlines translation the
   results are literally equal, errors included. *)
Theorem C09_framing : forall m s,
  (fst (iterparse_lines (lines_keepends s)) = fst (iterparse_str s) /\
   Rend (snd (iterparse_str s)) (snd (iterparse_lines (lines_keepends s)))) /\
  (fst (iterdecode_lines m (lines_keepends s)) = fst (iterdecode_str m s) /\
   Rend (snd (iterdecode_str m s)) (snd (iterdecode_lines m (lines_keepends s)))) /\
  Rout eq (loads m s) (load_lines m (lines_keepends s)) /\
  (forallb (fun c => negb (eqc c 13)) s = true -> iterparse_lines (lines_keepends s) = iterparse_str s) /\
  iterparse_str (universal_newlines s) = iterparse_str s /\
  loads m (universal_newlines s) = loads m s.
Proof.
  intros m s. split; [exact (framing_iterparse s)|]. split; [exact (framing_iterdecode m s)|].
  split; [exact (framing_loads m s)|]. split; [exact (framing_iterparse_lf s)|].
  split; [exact (framing_universal s) | exact (framing_universal_loads m s)].
Qed.
Print Assumptions C09_framing.

(* non-vacuity: a CRLF text with an empty-valued key (the F26 shape) and a
   second graph; the terminator-keeping container carries the CR in the comment
   token, yet both containers give the same two trees *)
Definition ex_text : str :=
  [35;32;58;58;107;13;10; 40;97;32;47;32;98;41;13;10; 35;32;58;58;105;100;32;50;13;10; 40;99;41;13;10]%N.
Example C09_nonvacuous :
  lines_keepends ex_text <> split_lines ex_text /\
  map ttext (lex_lines PENMAN_ALTS (lines_keepends ex_text)) <> map ttext (lex_lines PENMAN_ALTS (split_lines ex_text)) /\
  iterparse_lines (lines_keepends ex_text) = iterparse_str ex_text /\
  length (fst (iterparse_str ex_text)) = 2 /\
  map tmeta (fst (iterparse_str ex_text)) = [[([107]%N, [])]; [([105;100]%N, [50]%N)]].
Proof.
  split; [vm_compute; discriminate|]. split; [vm_compute; discriminate|].
  repeat split; vm_compute; reflexivity.
Qed.

(* non-vacuity of the conditional theorems: two concrete graphs (decoded from
   text) are encodable, their configured trees are well formed, and the
   dumps / loads round trip returns two graphs *)
Definition ex_s1 : str := [35;32;58;58;105;100;32;49;10;40;97;32;47;32;98;32;58;65;82;71;48;32;40;99;32;47;32;100;41;32;58;112;111;108;97;114;105;116;121;32;45;41]%N.
Definition ex_s2 : str := [40;120;32;47;32;121;41]%N.
Definition ex_gs : list graph :=
  match decode default_model ex_s1, decode default_model ex_s2 with
  | Ok g1, Ok g2 => [g1; g2]
  | _, _ => []
  end.
Example C09_dumps_loads_nonvacuous :
  exists ss, encode_all default_model (Some (-1)%Z) false ex_gs = Ok ss /\
    length ss = 2 /\
    (forall g t, In g ex_gs -> configure default_model g None = Ok t -> wf_tree t = true) /\
    (exists gs', loads default_model (join BLANKLINE ss) = Ok gs' /\ length gs' = 2) /\
    iterparse_str (join [32%N] ss) = iterparse_str (join BLANKLINE ss).
Proof.
  eexists. split; [vm_compute; reflexivity|]. split; [reflexivity|]. split.
  - intros g t I' C. vm_compute in I'. destruct I' as [E|[E|[]]]; subst g;
      vm_compute in C; inversion C; subst t; vm_compute; reflexivity.
  - split; [eexists; split; [vm_compute; reflexivity | reflexivity] | vm_compute; reflexivity].
Qed.
