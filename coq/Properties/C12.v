(** C12 — every transformation returns a well-formed graph that serialises
    faithfully.  ONLY statements here; proofs live in Proofs/Transform_lemmas.v. *)
From PM Require Import Spec.WfGraph Proofs.Transform_lemmas.

(* ---- the top is kept (F12) ---- *)
Theorem C12_reify_edges_top : forall m g g',
  reify_edges m g = Ok g' -> graph_top g' = graph_top g.
Proof. exact reify_edges_top. Qed.
Print Assumptions C12_reify_edges_top.

Theorem C12_dereify_edges_top : forall m g g',
  dereify_edges m g = Ok g' -> graph_top g' = graph_top g.
Proof. exact dereify_edges_top. Qed.
Print Assumptions C12_dereify_edges_top.

Theorem C12_reify_attributes_top : forall g g',
  reify_attributes g = Ok g' -> graph_top g' = graph_top g.
Proof. exact reify_attributes_top. Qed.
Print Assumptions C12_reify_attributes_top.

Theorem C12_indicate_branches_top : forall m g g',
  indicate_branches m g = Ok g' -> graph_top g' = graph_top g.
Proof. exact indicate_branches_top. Qed.
Print Assumptions C12_indicate_branches_top.
