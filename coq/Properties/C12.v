(** C12 — every transformation returns a well-formed graph that serialises
    faithfully.  ONLY statements here; proofs live in Proofs/Transform_lemmas.v.

    Vocabulary (Spec/WfGraph.v): [node_graph g] = roles carry their colon and
    every variable (sources and the explicit top) is a str owning exactly one
    instance triple; it is [wf_graph] without the pairwise-distinctness clause
    (which dereify_edges / indicate_branches may break by re-creating a triple
    that is already present) and it is the invariant that COMPOSES: each
    theorem below has [node_graph g] as hypothesis and conclusion.
    [table_inst_free m]: no role, source role or target role of the
    reification table is the instance role (after Graph() has added the colon).

    [connectedP g]: every variable is reachable from the top along edges taken
    in either direction (inductive [reach]); the boolean procedure
    [connected_b] is proved sound for it.

    The clause - encodes without error and decodes to itself - is an instance of
    C03/C06 (arbitrary markers) and is exercised by harness/c12.py only. *)
From PM Require Import Spec.WfGraph Proofs.Transform_lemmas.

(* ---- the top is kept (F12) ---- *)
Theorem C12_reify_edges_top : forall m g g',
  reify_edges m g = Ok g' -> graph_top g' = graph_top g.
Proof. exact reify_edges_top. Qed.
Print Assumptions C12_reify_edges_top.

Theorem C12_dereify_edges_top : forall m g g',
  dereify_edges m g = Ok g' -> graph_top g' = graph_top g.
Proof. exact dereify_edges_top. Qed.
Print Assumptions C12_dereify_edges_top.

Theorem C12_reify_attributes_top : forall g g',
  reify_attributes g = Ok g' -> graph_top g' = graph_top g.
Proof. exact reify_attributes_top. Qed.
Print Assumptions C12_reify_attributes_top.

Theorem C12_indicate_branches_top : forall m g g',
  indicate_branches m g = Ok g' -> graph_top g' = graph_top g.
Proof. exact indicate_branches_top. Qed.
Print Assumptions C12_indicate_branches_top.

(* ---- no exception, on ANY graph: no, partial or inconsistent epidata (F9);
        the fresh-name searches terminate within their fuel ---- *)
Theorem C12_reify_edges_total : forall m g, exists g', reify_edges m g = Ok g'.
Proof. exact reify_edges_total. Qed.
Print Assumptions C12_reify_edges_total.

Theorem C12_dereify_edges_total : forall m g, exists g', dereify_edges m g = Ok g'.
Proof. exact dereify_edges_total. Qed.
Print Assumptions C12_dereify_edges_total.

Theorem C12_reify_attributes_total : forall g, exists g', reify_attributes g = Ok g'.
Proof. exact reify_attributes_total. Qed.
Print Assumptions C12_reify_attributes_total.

(* indicate_branches contains [assert isinstance(t[2], str)] on a target that
   is a variable: it cannot fail when every variable is a str *)
Theorem C12_indicate_branches_total : forall m g, vars_are_str g ->
  exists g', indicate_branches m g = Ok g'.
Proof. exact indicate_branches_total. Qed.
Print Assumptions C12_indicate_branches_total.

(* ... and the assertion is its only possible failure *)
Theorem C12_indicate_branches_only_assert : forall m g ts r,
  indicate_loop m g ts = r -> (exists l, r = Ok l) \/ r = Other 4.
Proof. exact indicate_loop_only_assert. Qed.
Print Assumptions C12_indicate_branches_only_assert.

(* ---- every source is a variable owning exactly one instance triple ---- *)
Theorem C12_wf_is_node_graph : forall g, wf_graph g -> node_graph g.
Proof. exact wf_node_graph. Qed.
Print Assumptions C12_wf_is_node_graph.

Theorem C12_sources_are_variables_reify_edges : forall m g g',
  node_graph g -> table_inst_free m = true -> reify_edges m g = Ok g' -> node_graph g'.
Proof. exact reify_edges_node_graph. Qed.
Print Assumptions C12_sources_are_variables_reify_edges.

(* needs the F17 guard: the dereified source must be a variable *)
Theorem C12_sources_are_variables_dereify_edges : forall m g g',
  node_graph g -> table_inst_free m = true -> dereify_edges m g = Ok g' -> node_graph g'.
Proof. exact dereify_edges_node_graph. Qed.
Print Assumptions C12_sources_are_variables_dereify_edges.

Theorem C12_sources_are_variables_reify_attributes : forall g g',
  node_graph g -> reify_attributes g = Ok g' -> node_graph g'.
Proof. exact reify_attributes_node_graph. Qed.
Print Assumptions C12_sources_are_variables_reify_attributes.

(* needs the F29 guard: a branch is indicated from the target's node only
   when the target is a variable *)
Theorem C12_sources_are_variables_indicate_branches : forall m g g',
  node_graph g -> colon_inst (top_role m) = false -> indicate_branches m g = Ok g' -> node_graph g'.
Proof. exact indicate_branches_node_graph. Qed.
Print Assumptions C12_sources_are_variables_indicate_branches.

(* ---- reify_attributes ---- *)
Theorem C12_reify_attributes_no_attr : forall g g',
  reify_attributes g = Ok g' -> attributes g' None None None = [].
Proof. exact reify_attributes_no_attr. Qed.
Print Assumptions C12_reify_attributes_no_attr.

(* contracting every pair (s, r, v) (v, :instance, c) whose v is not an old
   name gives back exactly the original triple list *)
Theorem C12_reify_attributes_contract : forall g g',
  (forall t, In t (triples g) -> has_colon (trole t) = true) ->
  reify_attributes g = Ok g' -> contract_attrs (used_names g) (triples g') = triples g.
Proof. exact reify_attributes_contract. Qed.
Print Assumptions C12_reify_attributes_contract.

(* ---- indicate_branches ---- *)
(* the result is the input with one top-role triple in front of every triple
   that [indicates] (its first Push names the target, or names the source
   while the target is a variable) ... *)
Theorem C12_indicate_shape : forall m g, vars_are_str g ->
  indicate_branches m g = Ok (mk_graph (itriples m g (triples g)) (graph_top g) (epidata g) (gmeta g)).
Proof. exact indicate_branches_pure. Qed.
Print Assumptions C12_indicate_shape.

(* ... so exactly one triple is added per such Push ... *)
Theorem C12_indicate_adds_one_per_push : forall m g,
  length (itriples m g (triples g)) = length (triples g) + length (filter (indicates g) (triples g)).
Proof. intros. apply itriples_length. auto. Qed.
Print Assumptions C12_indicate_adds_one_per_push.

(* ... and removing the top-role triples gives the original back *)
Theorem C12_indicate_remove : forall m g g', vars_are_str g ->
  (forall t, In t (triples g) -> has_colon (trole t) = true /\
                                 str_eqb (trole t) (ensure_colon (top_role m)) = false) ->
  indicate_branches m g = Ok g' ->
  filter (fun t => negb (str_eqb (trole t) (ensure_colon (top_role m)))) (triples g') = triples g.
Proof.
  intros m g g' V H E. rewrite indicate_branches_pure in E by auto. inversion E; subst.
  rewrite triples_mk. apply itriples_remove. intros t I. destruct (H t I). auto.
Qed.
Print Assumptions C12_indicate_remove.

(* ---- connectivity ---- *)
Theorem C12_connected_sound : forall g, connected g -> connectedP g.
Proof. exact connected_b_sound. Qed.
Print Assumptions C12_connected_sound.

Theorem C12_connected_reify_edges : forall m g g', node_graph g -> table_inst_free m = true ->
  connectedP g -> reify_edges m g = Ok g' -> connectedP g'.
Proof. exact reify_edges_connected. Qed.
Print Assumptions C12_connected_reify_edges.

(* a collapsed node has exactly two relations, both outgoing, and is never adjacent
   to another collapsed node: the dereified triple bridges its two neighbours *)
Theorem C12_connected_dereify_edges : forall m g g', node_graph g -> table_inst_free m = true ->
  connectedP g -> dereify_edges m g = Ok g' -> connectedP g'.
Proof. exact dereify_edges_connected. Qed.
Print Assumptions C12_connected_dereify_edges.

Theorem C12_connected_reify_attributes : forall g g', node_graph g ->
  connectedP g -> reify_attributes g = Ok g' -> connectedP g'.
Proof. exact reify_attributes_connected. Qed.
Print Assumptions C12_connected_reify_attributes.

Theorem C12_connected_indicate_branches : forall m g g', node_graph g ->
  colon_inst (top_role m) = false -> connectedP g -> indicate_branches m g = Ok g' -> connectedP g'.
Proof. exact indicate_branches_connected. Qed.
Print Assumptions C12_connected_indicate_branches.

(* ---- every composition, in the CLI order or any other, of any length: it never
        raises and returns a graph with the same top that is again a node graph
        (every source a variable owning one instance triple) and connected ---- *)
Theorem C12_every_program : forall m prog g, node_graph g -> connectedP g ->
  table_inst_free m = true -> colon_inst (top_role m) = false ->
  exists g', run_xforms m prog g = Ok g' /\ node_graph g' /\ connectedP g' /\ graph_top g' = graph_top g.
Proof. exact run_xforms_ok. Qed.
Print Assumptions C12_every_program.

(* ---- the hypotheses are satisfiable; the live AMR table qualifies ---- *)
From PM Require Import Gen.AmrTable.
Definition c12_sample : graph :=
  (* (a / x :mod 7 :ARG0 (b / y))  as decoded *)
  mkGraph [(AStr [97], INSTANCE, AStr [120]); (AStr [97], [58;109;111;100], AStr [55]);
           (AStr [97], [58;65;82;71;48], AStr [98]); (AStr [98], INSTANCE, AStr [121])]%N
          (Some (AStr [97]%N))
          [((AStr [97], [58;65;82;71;48], AStr [98]), [Push (AStr [98])]);
           ((AStr [98], INSTANCE, AStr [121]), [Pop])]%N [].
Example C12_sample_wf : wf_graph c12_sample /\ connected c12_sample /\
  table_inst_free (model_of_table amr_table) = true /\
  colon_inst (top_role (model_of_table amr_table)) = false /\
  table_inst_free default_model = true /\ colon_inst (top_role default_model) = false /\
  exists g', run_xforms (model_of_table amr_table) cli_order c12_sample = Ok g' /\ length (triples g') = 7.
Proof. vm_compute. repeat split; auto. eexists. split; reflexivity. Qed.
