(** C08 - tokens tile the input and follow the documented lexical grammar.
    ONLY statements here; proofs live in Proofs/Lexer_lemmas.v, the declarative
    vocabulary (class languages [class_ok], right contexts [follow_ok], [lexeme],
    [first_lexeme], the scanning relation [lex_rel], [tiles], [ordered], [covers],
    [substr], [splits], [interleave]) in Spec/LexSpec.v.
    [alts] is an arbitrary alternation order (PENMAN_ALTS and TRIPLE_ALTS are
    instances); where the theorem needs the catch-all class it says
    [In UNEXPECTED alts]. *)
From PM Require Import Spec.LexSpec Proofs.Lexer_lemmas.

(* ------------------------------------------------------------------ *)
(** * 1. Tiling *)

(* the line is blanks, token text, blanks, token text, ..., blanks: every gap is
   made of the six ASCII blanks only, every text is non-empty and is carried by
   its token together with the line number and the exact column; the whole
   line is consumed (so the fuel S (length s) of lex_line suffices) *)
Theorem C08_tiles : forall alts ln s, In UNEXPECTED alts ->
  tiles ln 0 s (lex_line alts ln s).
Proof. exact lex_line_tiles. Qed.
Print Assumptions C08_tiles.

(* the same, position by position: strictly ordered non-overlapping spans; no
   empty token; lineno; text = line[offset : offset+len]; spans inside the line;
   every non-blank position is covered by a token *)
Theorem C08_tiles_explicit : forall alts ln s, In UNEXPECTED alts ->
  let toks := lex_line alts ln s in
  ordered 0 toks /\
  ForallOrdPairs (fun a b => (tend a <= toff b)%N) toks /\
  (forall t, In t toks ->
     ttext t <> [] /\ tline t = ln /\
     substr s (toff t) (length (ttext t)) = ttext t /\
     (tend t <= N.of_nat (length s))%N) /\
  (forall i, i < length s -> is_ws (nth i s 0%N) = false ->
     exists t, In t toks /\ covers t i).
Proof. exact lex_line_tiles_explicit. Qed.
Print Assumptions C08_tiles_explicit.

(* fuel sufficiency: more fuel never changes the tokens of a line *)
Theorem C08_fuel_suffices : forall alts ln s off f, length s < f ->
  lex_line_fuel f alts ln s off = lex_line_fuel (S (length s)) alts ln s off.
Proof. exact lex_line_fuel_enough. Qed.
Print Assumptions C08_fuel_suffices.

(* both shipped patterns end in the catch-all class *)
Theorem C08_alts_have_unexpected : In UNEXPECTED PENMAN_ALTS /\ In UNEXPECTED TRIPLE_ALTS.
Proof. exact alts_have_unexpected. Qed.
Print Assumptions C08_alts_have_unexpected.

(* ------------------------------------------------------------------ *)
(** * 2. Classes *)

(* every scanner decides exactly its declarative class: it succeeds with (w, r)
   iff w is a word of the class language, followed by r, with the right context
   the class requires (greedy classes maximal, comment to end of line) *)
Theorem C08_matcher_spec : forall k s w r,
  matcher_of k s = Some (w, r) <-> s = w ++ r /\ class_ok k w /\ follow_ok k r.
Proof. exact matcher_spec. Qed.
Print Assumptions C08_matcher_spec.

(* the grammar is unambiguous: at most one lexeme per class and position *)
Theorem C08_lexeme_unique : forall k s w r w' r',
  lexeme k s w r -> lexeme k s w' r' -> w = w' /\ r = r'.
Proof. exact lexeme_unique. Qed.
Print Assumptions C08_lexeme_unique.

(* ordered alternation = first class in the order that has a lexeme here *)
Theorem C08_first_match_spec : forall alts s k w r,
  first_match alts s = Some (k, w, r) <-> first_lexeme alts s k w r.
Proof. exact first_match_spec. Qed.
Print Assumptions C08_first_match_spec.

(* each token (k, w) of a line is the first-class lexeme at its offset *)
Theorem C08_class : forall alts ln s t, In t (lex_line alts ln s) ->
  exists r, skipn (N.to_nat (toff t)) s = ttext t ++ r /\
            first_match alts (skipn (N.to_nat (toff t)) s) = Some (tty t, ttext t, r) /\
            first_lexeme alts (skipn (N.to_nat (toff t)) s) (tty t) (ttext t) r.
Proof. exact lex_line_class. Qed.
Print Assumptions C08_class.

(* the token list is THE result of the declarative scanning relation
   (skip a character only where no class has a lexeme, otherwise emit the
   first-class lexeme and continue after it) *)
Theorem C08_scan_spec : forall alts ln s toks,
  lex_rel alts ln 0 s toks <-> toks = lex_line alts ln s.
Proof. exact lex_rel_iff. Qed.
Print Assumptions C08_scan_spec.

(* on a line without CR/LF (every line of a str input) a comment ends the line *)
Theorem C08_comment_to_eol : forall alts ln s t, no_eol s -> In t (lex_line alts ln s) ->
  tty t = COMMENT -> tend t = N.of_nat (length s).
Proof. exact comment_to_eol. Qed.
Print Assumptions C08_comment_to_eol.

(* ------------------------------------------------------------------ *)
(** * 3. Non-ASCII blanks and separators are content, never skipped *)

Theorem C08_nonascii_blank_is_content : forall alts ln s i, In UNEXPECTED alts ->
  i < length s ->
  In (nth i s 0%N) [160; 12288; 8232; 133; 8233; 5760; 8239; 28; 29; 30; 31]%N ->
  exists t, In t (lex_line alts ln s) /\ covers t i.
Proof. exact lex_line_nonascii_blank_is_content. Qed.
Print Assumptions C08_nonascii_blank_is_content.

(* ------------------------------------------------------------------ *)
(** * 4. Lines *)

(* lex over an iterable of lines: per-line results concatenated, numbered from 1 *)
Theorem C08_lines_concat : forall alts ls,
  lex_lines alts ls = flat_map (fun p => lex_line alts (fst p) (snd p)) (number_from 1 ls).
Proof. exact lex_lines_spec. Qed.
Print Assumptions C08_lines_concat.

Theorem C08_lines : forall alts ls t, In t (lex_lines alts ls) <->
  exists i, i < length ls /\ tline t = (1 + N.of_nat i)%N /\
            In t (lex_line alts (1 + N.of_nat i) (nth i ls [])).
Proof. exact lex_lines_in. Qed.
Print Assumptions C08_lines.

(* lex over a str: the lines are exactly the pieces between LF, CR LF and lone CR *)
Theorem C08_split_spec : forall s ps, splits s ps <-> ps = split_lines s.
Proof. exact split_lines_spec. Qed.
Print Assumptions C08_split_spec.

Theorem C08_split_pieces : forall s, Forall no_eol (split_lines s) /\ split_lines s <> [].
Proof. exact split_lines_pieces. Qed.
Print Assumptions C08_split_pieces.

Theorem C08_split_join : forall s,
  exists ts, length (split_lines s) = S (length ts) /\ Forall is_terminator ts /\
             interleave (split_lines s) ts = s.
Proof. exact split_lines_join. Qed.
Print Assumptions C08_split_join.

(* nothing but LF and CR breaks a line (VT, FF, FS..US, NEL, LS, PS do not) *)
Theorem C08_split_only_crlf : forall s, no_eol s -> split_lines s = [s].
Proof. exact split_lines_only_crlf. Qed.
Print Assumptions C08_split_only_crlf.

(* ------------------------------------------------------------------ *)
(** * Examples (vm_compute) *)

(* ( a / dquote x backslash dquote y dquote :r~E.1 b~1,2 ~ )#c  : every class,
   upper-case alignment prefix accepted, a lone tilde is UNEXPECTED *)
Example C08_example_all_classes :
  lex_line PENMAN_ALTS 1
    [40;97;32;47;32;34;120;92;34;121;34;32;58;114;126;69;46;49;32;98;126;49;44;50;32;126;32;41;35;99]%N
  = [mkToken LPAREN [40] 1 0;
     mkToken SYMBOL [97] 1 1;
     mkToken SLASH [47] 1 3;
     mkToken STRING [34;120;92;34;121;34] 1 5;
     mkToken ROLE [58;114] 1 12;
     mkToken ALIGNMENT [126;69;46;49] 1 14;
     mkToken SYMBOL [98] 1 19;
     mkToken ALIGNMENT [126;49;44;50] 1 20;
     mkToken UNEXPECTED [126] 1 25;
     mkToken RPAREN [41] 1 27;
     mkToken COMMENT [35;99] 1 28]%N.
Proof. vm_compute. reflexivity. Qed.

Example C08_example_triple_pattern :
  lex_line TRIPLE_ALTS 1
    [40;97;32;47;32;34;120;92;34;121;34;32;58;114;126;69;46;49;32;98;126;49;44;50;32;126;32;41;35;99]%N
  = [mkToken LPAREN [40] 1 0;
     mkToken SYMBOL [97] 1 1;
     mkToken UNEXPECTED [47] 1 3;
     mkToken STRING [34;120;92;34;121;34] 1 5;
     mkToken UNEXPECTED [58] 1 12;
     mkToken SYMBOL [114] 1 13;
     mkToken UNEXPECTED [126] 1 14;
     mkToken SYMBOL [69;46;49] 1 15;
     mkToken SYMBOL [98] 1 19;
     mkToken UNEXPECTED [126] 1 20;
     mkToken SYMBOL [49;44;50] 1 21;
     mkToken UNEXPECTED [126] 1 25;
     mkToken RPAREN [41] 1 27;
     mkToken COMMENT [35;99] 1 28]%N.
Proof. vm_compute. reflexivity. Qed.

(* a NBSP b U+3000 U+2028 U+0085 SPACE VT ( : the exotic blanks are symbol content *)
Example C08_example_nonascii :
  lex_line PENMAN_ALTS 1 [97;160;98;12288;8232;133;32;11;40]%N
  = [mkToken SYMBOL [97;160;98;12288;8232;133] 1 0; mkToken LPAREN [40] 1 8]%N.
Proof. vm_compute. reflexivity. Qed.

(* a CR LF b CR c LF U+2028 d FF U+0085 CR : five lines, LS / FF / NEL do not split *)
Example C08_example_split :
  split_lines [97;13;10;98;13;99;10;8232;100;12;133;13]%N
  = [[97]; [98]; [99]; [8232;100;12;133]; []]%N.
Proof. vm_compute. reflexivity. Qed.

(* lines of a str input are numbered from 1 *)
Example C08_example_lineno :
  map (fun t => (tline t, toff t)) (lex_str PENMAN_ALTS [97;13;10;13;32;98;10;99]%N)
  = [(1, 0); (3, 1); (4, 0)]%N.
Proof. vm_compute. reflexivity. Qed.

(* the hypotheses of C08_comment_to_eol and C08_split_only_crlf are satisfiable *)
Example C08_example_comment_hyp :
  let s := [40;97;32;35;32;99;160;41]%N in
  no_eol s /\ In (mkToken COMMENT [35;32;99;160;41]%N 7%N 3%N) (lex_line PENMAN_ALTS 7%N s).
Proof. vm_compute. split; [reflexivity | right; right; left; reflexivity]. Qed.
