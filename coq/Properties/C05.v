(** C05 — re-layout operations never change the graph.
    ONLY statements here; proofs live in Proofs/Rearrange_lemmas.v, Base/PySort.v.

    [rearrange_st leb key af s t] is rearrange(t, key, attributes_first) for a key
    function [key : S -> str -> S * K] that may carry state (random_order draws the
    next number of an arbitrary stream: any seed, any generator); [rearrange] is
    the special case of a pure key or key=None.  The theorems about permutation
    and content quantify over EVERY key; sortedness and stability are stated for
    pure keys whose comparison is a total preorder (Python's [sorted] is assumed
    to be a stable sort for it: by [C05_stable_sort_unique] there is only one). *)
From PM Require Import Impl.Layout Spec.WfLayout Proofs.Model_lemmas Proofs.Configure_fast
  Proofs.Rearrange_lemmas.
From Coq Require Import Sorting.Permutation Sorting.Sorted.

(* each node's branch list is a permutation of the original one in which nested
   nodes were rearranged the same way; a leading "/" branch stays first, untouched *)
Theorem C05_rearrange_perm : forall {K S} (leb : K -> K -> bool) (key : S -> str -> S * K)
  (vars : list atom) (n : node) (s : S),
  rearranged n (snd (rearrange_node leb key vars s n)).
Proof. intros K S. exact (@rearrange_node_rearranged K S). Qed.
Print Assumptions C05_rearrange_perm.

(* the relation unfolded once, so that the statement above can be read *)
Theorem C05_rearranged_meaning : forall v bs n',
  rearranged (Node v bs) n' <->
  v = node_var n' /\
  exists bs1, Forall2 (rel_branch rearranged) bs bs1 /\
              Permutation bs1 (node_branches n') /\ slash_kept bs (node_branches n').
Proof. exact rearranged_eq. Qed.
Print Assumptions C05_rearranged_meaning.

(* interpreting the rearranged tree gives the same top, the same metadata and the
   same triples as a multiset — for every key, with or without attributes_first *)
Theorem C05_rearrange_content : forall {K S} (leb : K -> K -> bool) (key : S -> str -> S * K)
  (af : bool) (s : S) (m : model) (t : tree) (g : graph),
  interpret m t = Ok g ->
  exists g', interpret m (snd (rearrange_st leb key af s t)) = Ok g' /\
             gtop g' = gtop g /\ gmeta g' = gmeta g /\
             Permutation (triples g') (triples g).
Proof. intros K S. exact (@rearrange_st_content K S). Qed.
Print Assumptions C05_rearrange_content.

(* the same for [rearrange] proper (pure key or None) *)
Theorem C05_rearrange_content_pure : forall {K} (leb : K -> K -> bool) (key : option (str -> K))
  (af : bool) (m : model) (t : tree) (g : graph),
  interpret m t = Ok g ->
  exists g', interpret m (rearrange leb key af t) = Ok g' /\
             gtop g' = gtop g /\ gmeta g' = gmeta g /\
             Permutation (triples g') (triples g).
Proof. intros K. exact (@rearrange_content_pure K). Qed.
Print Assumptions C05_rearrange_content_pure.

(* with a pure key: at EVERY node (the equation holds for nested nodes, which are
   [rn] of the original nested nodes) the branches after a leading "/" are the
   stable sort by (criterion1, key(role)) of the recursively rearranged rest:
   sorted, same elements, equal keys keep their order, and no other list has
   these properties *)
Theorem C05_rearrange_sorted_stable : forall {K} (leb : K -> K -> bool) (k : str -> K) (vars : list atom),
  total leb -> transitive leb -> forall v bs,
  let rest := map (rtarget leb k vars) (snd (split_concept bs)) in
  exists srt,
    node_branches (rn leb k vars (Node v bs)) = fst (split_concept bs) ++ srt /\
    srt = sorted_by (branch_leb leb) (bkey k vars) rest /\
    Permutation srt rest /\
    StronglySorted (key_le (branch_leb leb) (bkey k vars)) srt /\
    (forall kk, kclass (branch_leb leb) (bkey k vars) kk srt = kclass (branch_leb leb) (bkey k vars) kk rest) /\
    (forall l', StronglySorted (key_le (branch_leb leb) (bkey k vars)) l' ->
                (forall kk, kclass (branch_leb leb) (bkey k vars) kk l' = kclass (branch_leb leb) (bkey k vars) kk rest) ->
                l' = srt).
Proof. intros K. exact (@rearrange_sorted_stable K). Qed.
Print Assumptions C05_rearrange_sorted_stable.

(* ... and so the WHOLE rearranged tree is sorted: at the root and at every nested
   node, the branches after a leading "/" are in key order *)
Theorem C05_rearrange_all_sorted : forall {K} (leb : K -> K -> bool) (k : str -> K) (vars : list atom),
  total leb -> transitive leb -> forall n, all_sorted leb k vars (rn leb k vars n).
Proof. intros K. exact (@rearrange_all_sorted K). Qed.
Print Assumptions C05_rearrange_all_sorted.

Theorem C05_all_sorted_meaning : forall {K} (leb : K -> K -> bool) (k : str -> K) (vars : list atom) v bs,
  all_sorted leb k vars (Node v bs) <-> rest_sorted leb k vars bs /\ go_sorted leb k vars true bs.
Proof. intros K. exact (@all_sorted_eq K). Qed.
Print Assumptions C05_all_sorted_meaning.

(* [rearrange] with [Some k] / [None] is [rn] with that key / the constant key *)
Theorem C05_rearrange_is_rn : forall {K} (leb : K -> K -> bool) (k : str -> K) af t,
  troot (rearrange leb (Some k) af t) = rn leb k (if af then tree_vars (troot t) else []) (troot t) /\
  troot (rearrange leb (@None (str -> K)) af t) =
    rn unit_leb (fun _ => tt) (if af then tree_vars (troot t) else []) (troot t) /\
  tmeta (rearrange leb (Some k) af t) = tmeta t.
Proof. intros K. exact (@rearrange_is_rn K). Qed.
Print Assumptions C05_rearrange_is_rn.

(* uniqueness of the stable sort: the assumption "CPython's sorted is a stable sort
   for the key's total preorder" determines the same list as [sorted_by] *)
Theorem C05_stable_sort_unique : forall {A K} (leb : K -> K -> bool) (key : A -> K),
  total leb -> transitive leb -> forall l l',
  StronglySorted (key_le leb key) l' -> (forall k, kclass leb key k l' = kclass leb key k l) ->
  l' = sorted_by leb key l.
Proof. intros A K. exact (@sorted_by_unique A K). Qed.
Print Assumptions C05_stable_sort_unique.

(* the comparisons of the shipped keys are total preorders; so is the comparison of
   the command line's composite key [f(role) for f in funcs] (lists, lexicographic) *)
Theorem C05_key_orders_total_preorders :
  (total alnum_leb /\ transitive alnum_leb) /\
  (total canonical_leb /\ transitive canonical_leb) /\
  (total bool_leb /\ transitive bool_leb) /\ (total N.leb /\ transitive N.leb) /\
  (forall K (leb : K -> K -> bool), total leb -> transitive leb ->
     total (list_leb leb) /\ transitive (list_leb leb)).
Proof. exact key_orders_total_preorders. Qed.
Print Assumptions C05_key_orders_total_preorders.

(* alphanumeric_order: equal name part -> numeric comparison of the digit suffix;
   ":op2" sorts before ":op10" although it is the larger string *)
Theorem C05_alnum_numeric : forall name c digits1 d1 digits2 d2,
  is_digit c = false ->
  forallb is_digit (d1 :: digits1) = true -> forallb is_digit (d2 :: digits2) = true ->
  alnum_ltb (alnum_key (name ++ [c] ++ d1 :: digits1)) (alnum_key (name ++ [c] ++ d2 :: digits2))
  = N.ltb (digits_to_N (d1 :: digits1)) (digits_to_N (d2 :: digits2)).
Proof. exact alnum_numeric. Qed.
Print Assumptions C05_alnum_numeric.

Theorem C05_alnum_op2_before_op10 :
  alnum_ltb (alnum_key [58;111;112;50]%N) (alnum_key [58;111;112;49;48]%N) = true /\
  str_ltb [58;111;112;50]%N [58;111;112;49;48]%N = false.
Proof. exact alnum_op2_op10. Qed.
Print Assumptions C05_alnum_op2_before_op10.

(* canonical_order: every non-inverted role sorts strictly before every inverted one *)
Theorem C05_canonical_inverted_last : forall m r1 r2,
  is_role_inverted m r1 = false -> is_role_inverted m r2 = true ->
  canonical_leb (canonical_key m r1) (canonical_key m r2) = true /\
  canonical_leb (canonical_key m r2) (canonical_key m r1) = false.
Proof. exact canonical_inverted_last. Qed.
Print Assumptions C05_canonical_inverted_last.

(* reconfigure = configure of a graph without Push/POP, with the same triples as a
   multiset (the same list when key=None), the same top, metadata and alignments *)
Theorem C05_reconfigure_strips_markers : forall {K S} (leb : K -> K -> bool)
  (key : option (S -> str -> S * K)) (s : S) (g : graph),
  let g' := snd (reconfigure_graph_st leb key s g) in
  Forall (fun kv : triple * list epi => forallb (fun e => negb (is_layout e)) (snd kv) = true) (epidata g') /\
  map fst (epidata g') = map fst (epidata g) /\
  (forall t, epis_of g' t = filter (fun e => negb (is_layout e)) (epis_of g t)) /\
  Permutation (triples g') (triples g) /\
  (key = None -> triples g' = triples g) /\
  gtop g' = gtop g /\ gmeta g' = gmeta g /\
  alignments g' = alignments g /\ role_alignments g' = role_alignments g.
Proof. intros K S. exact (@reconfigure_strips_markers K S). Qed.
Print Assumptions C05_reconfigure_strips_markers.

(* the top handed to configure is the requested one, else the top of the ORIGINAL
   graph (explicit, or the source of its first triple BEFORE sorting) *)
Theorem C05_reconfigure_is_configure : forall {K S} (leb : K -> K -> bool) m g top
  (key : option (S -> str -> S * K)) (s : S),
  reconfigure_st leb m g top key s =
  configure m (snd (reconfigure_graph_st leb key s g))
            (match top with Some t => Some t | None => graph_top g end).
Proof. reflexivity. Qed.
Print Assumptions C05_reconfigure_is_configure.

(* NOT proved here: C05_reconfigure_content / C05_retop_content, i.e. that
     configure m g' top = Ok t -> interpret m t has the triples of g' up to
     inversion and the requested top.
   That is content preservation of [configure] itself on graphs WITHOUT layout
   markers (the fallback loop), the subject of Proofs/Configure_content.v (C03/C06);
   here it is covered by the oracle and the correspondence run only. *)

(* non-vacuity: a tree on which the canonical key really reorders, keeps "/" first,
   and puts the inverted role last *)
Example C05_nonvacuous :
  let a := AStr [97]%N in let x := AStr [120]%N in
  let t := mkTree (Node a [(SLASHS, TAtom x);
                           ([58;111;112;49;48]%N, TAtom x);            (* :op10 *)
                           ([58;65;45;111;102]%N, TAtom x);            (* :A-of *)
                           ([58;111;112;50]%N, TAtom x)]) [] in        (* :op2  *)
  map fst (node_branches (troot (rearrange canonical_leb (Some (canonical_key default_model)) false t)))
  = [SLASHS; [58;111;112;50]%N; [58;111;112;49;48]%N; [58;65;45;111;102]%N].
Proof. vm_compute. reflexivity. Qed.
