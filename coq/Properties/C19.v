(** C19 -- triple-conjunction notation round-trips.
    ONLY statements here; proofs live in Proofs/Triples_lemmas.v.

    [wf_conj_triple] (Triples_lemmas.v; DESIGN N2, weakened to what the proof needs):
      source  a non-empty run of name characters without a comma, not starting with a hash;
      role    a colon followed by such a run (so exactly one leading colon), commas allowed;
      target  such a run (commas allowed), a number whose text is one, or a STRING lexeme
              (accepted by the STRING scanner with nothing left) of ANY content except that
              it cannot contain CR or LF (lex splits lines before scanning).
    The theorem is about STRINGS: format_triples, the TRIPLE_RE lexer, _parse_triples. *)
From PM Require Import Impl.Parse Impl.Format Proofs.Triples_lemmas.

(* writing the list in either line style and parsing it back returns the same list, in
   order, each source/target as its text and each target present *)
Theorem C19_roundtrip : forall ts (indent : bool),
  ts <> [] -> Forall wf_conj_triple ts ->
  parse_triples (format_triples ts indent) = Ok (map parsed_triple ts).
Proof. exact roundtrip. Qed.
Print Assumptions C19_roundtrip.

(* every role that comes back carries its leading colon *)
Theorem C19_roles_keep_colon : forall ts, Forall wf_conj_triple ts ->
  Forall (fun r => startswith (snd (fst r)) [COLON] = true) (map parsed_triple ts).
Proof. exact roundtrip_roles_colon. Qed.
Print Assumptions C19_roles_keep_colon.

(* the hypotheses are satisfiable on a non-trivial list: a symbol target, a quoted string
   containing a comma, a blank, parentheses and a caret, and a negative number *)
Example C19_example_wf : ex_triples <> [] /\ Forall wf_conj_triple ex_triples.
Proof. exact ex_triples_wf. Qed.
Example C19_example_roundtrip : forall indent : bool,
  parse_triples (format_triples ex_triples indent) = Ok (map parsed_triple ex_triples).
Proof. exact ex_roundtrip. Qed.

(* the tokens format_triples' text is lexed into (types and texts; positions abstracted) *)
Theorem C19_lex_format : forall ps (indent : bool), ps <> [] -> Forall parts_ok ps ->
  shapes (lex_str TRIPLE_ALTS (join (if indent then SEP_NL else SEP_LINE) (map fmt_parts ps))) = conj_shapes ps.
Proof. exact lex_format_triples. Qed.
Print Assumptions C19_lex_format.

(* SPACING, over token sequences: a conjunction whose every triple uses ANY of the comma
   placements  a,b  a, b  a ,b  a , b  (a string target needs the comma outside it) and
   whose every conjunction sign is a separate caret token or is glued to the next role
   parses to the same list as the canonical layout *)
Theorem C19_spacing : forall p c k l toks last,
  items_ok p c l -> shapes toks = loop_shapes false p c l ->
  parse_triples_loop (S (length toks)) (mkIter toks last) false [] = Ok (map item_result ((p, c, k) :: l)).
Proof. exact parse_styled. Qed.
Print Assumptions C19_spacing.

Theorem C19_spacing_same : forall p c1 c2 k l1 l2 toks1 toks2 last1 last2,
  items_ok p c1 l1 -> items_ok p c2 l2 ->
  map (fun i => fst (fst i)) l1 = map (fun i => fst (fst i)) l2 ->
  shapes toks1 = loop_shapes false p c1 l1 -> shapes toks2 = loop_shapes false p c2 l2 ->
  parse_triples_loop (S (length toks1)) (mkIter toks1 last1) false [] =
  parse_triples_loop (S (length toks2)) (mkIter toks2 last2) false [] /\
  parse_triples_loop (S (length toks1)) (mkIter toks1 last1) false [] =
    Ok (map item_result ((p, c1, k) :: l1)).
Proof. exact spacing_same. Qed.
Print Assumptions C19_spacing_same.

(* the documented variants as strings (tests/test_penman.py test_parse_triples) *)
Example C19_spacing_strings :
  parse_triples [R;40;A;44;B;41]%N = expect1 /\
  parse_triples [R;40;A;44;32;B;41]%N = expect1 /\
  parse_triples [R;40;A;32;44;B;41]%N = expect1 /\
  parse_triples [R;40;A;32;44;32;B;41]%N = expect1 /\
  parse_triples [R;40;A;44;B;41;94;R;40;B;44;C;41]%N = expect2 /\
  parse_triples [R;40;A;44;32;B;41;32;94;R;40;B;44;32;C;41]%N = expect2 /\
  parse_triples [R;40;A;44;32;B;41;32;94;32;R;40;B;44;32;C;41]%N = expect2 /\
  parse_triples [R;40;A;44;32;B;41;32;94;10;R;40;B;44;32;C;41]%N = expect2.
Proof. exact spacing_strings. Qed.

(* boundaries of the hypothesis (N2): none of these round-trips, each fails loudly *)
Example C19_comma_in_source_rejected :
  parse_triples (format_triples [(AStr [A;44;B]%N, [COLON; R], AStr [C])] true) = DecodeErr 1 7.
Proof. exact comma_in_source_not_roundtrip. Qed.
Example C19_newline_in_string_rejected :
  exists l o, parse_triples (format_triples [(AStr [A], [COLON; R], AStr [34;A;10;B;34]%N)] true) = DecodeErr l o.
Proof. exact newline_in_string_not_roundtrip. Qed.
Example C19_anonymous_role_rejected :
  exists l o, parse_triples (format_triples [(AStr [A], [COLON], AStr [B])] true) = DecodeErr l o.
Proof. exact anonymous_role_not_roundtrip. Qed.
