(** C10b -- the NAMING RULE of Tree.reset_variables: the bijection is chosen from the
    node concepts in depth-first order.  ONLY statements here; proofs and the
    specification vocabulary live in Proofs/ResetNaming_lemmas.v:

      spec_defs t          the nodes of Tree.nodes() (depth first) that carry a variable
                           not carried by an earlier node (the FIRST definitions);
      node_prefix n        default_variable_prefix of n's concept;
      spec_name ps pre earlier = render ps pre i with i the least index whose rendering
                           is not in [earlier], found by a bounded search over
                           0 .. length earlier (no fuel, no loop state);
      spec_name_list ps t  the names of spec_defs t in order, each chosen against the
                           names before it;
      spec_names ps t      the old -> new map: combine (variables of spec_defs t) (names).

    [is_alpha] and [lower] (str.isalpha / str.lower on one character) are arbitrary. *)
From Coq Require Import Lia.
From PM Require Import Impl.ResetVars Impl.Interpret Proofs.Errors_lemmas Proofs.ResetVars_lemmas
  Proofs.ResetNaming_lemmas.

(* the first pass of the model builds exactly the specified map, in insertion order *)
Theorem C10b_naming_rule : forall is_alpha lower ps t, uses_index ps = true ->
  reset_map is_alpha lower ps t = Ok (spec_names is_alpha lower ps t).
Proof. exact reset_map_spec. Qed.
Print Assumptions C10b_naming_rule.

(* ... and the call returns the tree renamed by that map *)
Theorem C10b_reset_variables_spec : forall is_alpha lower ps t,
  uses_index ps = true -> all_vars (troot t) = true ->
  reset_variables is_alpha lower ps t =
    Ok (mkTree (rename_node (spec_names is_alpha lower ps t) (troot t)) (tmeta t)).
Proof. exact reset_variables_spec. Qed.
Print Assumptions C10b_reset_variables_spec.

(* what the specification says, position by position: the name of the k-th DISTINCT
   variable (depth-first order of its first definition n) is render ps pre i with pre the
   prefix of n's concept and i the LEAST index whose rendering is not among the names
   given to the k earlier variables *)
Theorem C10b_naming_rule_least : forall is_alpha lower ps t k n, uses_index ps = true ->
  nth_error (spec_defs t) k = Some n ->
  exists i,
    nth_error (spec_name_list is_alpha lower ps t) k = Some (render ps (node_prefix is_alpha lower n) i) /\
    ~ In (render ps (node_prefix is_alpha lower n) i) (firstn k (spec_name_list is_alpha lower ps t)) /\
    (forall j, (j < i)%N ->
       In (render ps (node_prefix is_alpha lower n) j) (firstn k (spec_name_list is_alpha lower ps t))).
Proof. exact naming_rule_least. Qed.
Print Assumptions C10b_naming_rule_least.

(* the bounded search of spec_name is the least free index (justified by
   C10_render_injective) *)
Theorem C10b_spec_name_least : forall ps pre earlier, uses_index ps = true ->
  exists i, spec_name ps pre earlier = render ps pre i /\
    ~ In (render ps pre i) earlier /\
    (forall j, (j < i)%N -> In (render ps pre j) earlier).
Proof. exact spec_name_least. Qed.
Print Assumptions C10b_spec_name_least.

(* looking up the variable of the k-th first definition gives the k-th name *)
Theorem C10b_spec_names_get : forall is_alpha lower ps t k n, nth_error (spec_defs t) k = Some n ->
  dget atom_eqb (node_var n) (spec_names is_alpha lower ps t) = nth_error (spec_name_list is_alpha lower ps t) k.
Proof. exact spec_names_get. Qed.
Print Assumptions C10b_spec_names_get.

(* spec_defs: the FIRST node carrying each variable, and all distinct variables of
   Tree.nodes() in order of first occurrence *)
Theorem C10b_spec_defs_first : forall t k n, nth_error (spec_defs t) k = Some n ->
  exists pre post, nodes_of (troot t) = pre ++ n :: post /\
    forall m, In m pre -> atom_eqb (node_var n) (node_var m) = false.
Proof. exact spec_defs_first. Qed.
Print Assumptions C10b_spec_defs_first.

Theorem C10b_spec_defs_vars : forall t,
  map node_var (spec_defs t) = dedup atom_eqb (tree_vars (troot t)).
Proof. exact spec_defs_vars. Qed.
Print Assumptions C10b_spec_defs_vars.

(* ---- corollaries: counting per prefix ------------------------------------------ *)

(* when the format never confuses two prefixes of a class [good] containing all prefixes
   of the tree, the k-th distinct variable is named render ps p c with p its prefix and c
   the number of EARLIER distinct variables with the same prefix.  (Without such a
   hypothesis the statement is false: with the format {i} all prefixes share the names
   0, 1, 2, ...; it is the least-index rule above that always holds.) *)
Theorem C10b_naming_rule_count : forall is_alpha lower ps good t k n,
  uses_index ps = true -> separates ps good ->
  (forall m, In m (spec_defs t) -> good (node_prefix is_alpha lower m)) ->
  nth_error (spec_defs t) k = Some n ->
  nth_error (spec_name_list is_alpha lower ps t) k =
    Some (render ps (node_prefix is_alpha lower n)
            (N.of_nat (count_prefix is_alpha lower (node_prefix is_alpha lower n) (firstn k (spec_defs t))))).
Proof. exact naming_rule_count_nth. Qed.
Print Assumptions C10b_naming_rule_count.

(* the separation hypothesis is needed: format {i}, (x / apple :r (y / boy)) is renamed to
   0 and 1 -- the first variable with prefix b is not named render {i} b 0 = 0 *)
Example C10b_count_needs_separation :
  spec_name_list latin1_is_alpha latin1_lower [Idx] tree_apple_boy = [[48]; [49]]%N /\
  map (node_prefix latin1_is_alpha latin1_lower) (spec_defs tree_apple_boy) = [[97]; [98]]%N /\
  render [Idx] [98]%N 0 = [48]%N /\
  reset_map latin1_is_alpha latin1_lower [Idx] tree_apple_boy = Ok [(AStr w_x, [48]%N); (AStr w_y, [49]%N)].
Proof. exact count_needs_separation. Qed.

(* the first variable with prefix p gets render ps p 0 *)
Theorem C10b_first_of_prefix : forall is_alpha lower ps good t k n, uses_index ps = true ->
  separates ps good -> (forall m, In m (spec_defs t) -> good (node_prefix is_alpha lower m)) ->
  nth_error (spec_defs t) k = Some n ->
  (forall m, In m (firstn k (spec_defs t)) -> node_prefix is_alpha lower m <> node_prefix is_alpha lower n) ->
  nth_error (spec_name_list is_alpha lower ps t) k = Some (render ps (node_prefix is_alpha lower n) 0).
Proof. exact naming_rule_first_of_prefix. Qed.
Print Assumptions C10b_first_of_prefix.

(* the format {prefix}{j} (fmt_prefix_j = [Prefix; Jdx]): provided lower-casing an
   alphabetic character never yields an ASCII digit, the names are p, p2, p3, ... in
   depth-first order of the distinct variables whose first definition has prefix p *)
Theorem C10b_prefix_j_separates : separates fmt_prefix_j digit_free.
Proof. exact prefix_j_separates. Qed.
Print Assumptions C10b_prefix_j_separates.

Theorem C10b_prefix_j_names : forall is_alpha lower t k n,
  (forall c, is_alpha c = true -> digit_free (lower c)) ->
  nth_error (spec_defs t) k = Some n ->
  let p := node_prefix is_alpha lower n in
  let c := count_prefix is_alpha lower p (firstn k (spec_defs t)) in
  nth_error (spec_name_list is_alpha lower fmt_prefix_j t) k =
    Some (match c with O => p | S _ => p ++ N_to_str (N.of_nat (S c)) end).
Proof. exact prefix_j_names. Qed.
Print Assumptions C10b_prefix_j_names.

(* the hypothesis holds for the Latin-1 instance used by the extracted driver *)
Theorem C10b_latin1_digit_free : forall c, latin1_is_alpha c = true -> digit_free (latin1_lower c).
Proof. exact latin1_lower_digit_free. Qed.
Print Assumptions C10b_latin1_digit_free.

(* ---- non-vacuity: (x / bark :ARG0 (y / boy) :ARG1 (z / ball :mod y)) -> b, b2, b3 ---- *)
Example C10b_example_bark_compute :
  uses_index fmt_prefix_j = true /\ all_vars (troot tree_bark) = true /\
  reset_variables latin1_is_alpha latin1_lower fmt_prefix_j tree_bark = Ok tree_bark_reset /\
  spec_names latin1_is_alpha latin1_lower fmt_prefix_j tree_bark =
    [(AStr w_x, w_b); (AStr w_y, w_b2); (AStr w_z, w_b3)].
Proof. exact example_bark_compute. Qed.

Example C10b_example_bark_by_theorem :
  spec_name_list latin1_is_alpha latin1_lower fmt_prefix_j tree_bark = [w_b; w_b2; w_b3] /\
  reset_variables latin1_is_alpha latin1_lower fmt_prefix_j tree_bark =
    Ok (mkTree (rename_node [(AStr w_x, w_b); (AStr w_y, w_b2); (AStr w_z, w_b3)] (troot tree_bark))
               (tmeta tree_bark)).
Proof. exact example_bark_by_theorem. Qed.
