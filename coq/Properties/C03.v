(** C03 -- Any graph survives encode then decode with its content intact, from
    any top.  ONLY statements; proofs in Proofs/Configure_content.v.

    What is proved: the graph-to-tree half (configure), at the level of the
    branch multiset of the configured tree, for every model that deinverts,
    every triple order, every requested top, with or without layout markers:
    configure SUCCEEDS on every well-formed connected graph (T3) and its tree
    holds exactly the content of the graph (T2); and that the formatter writes
    every atomic target.  The text half (format / parse / interpret round
    trip of that tree) is C01/C04 and is covered here by the oracle. *)
From PM Require Import Spec.GraphEq Impl.Configure Proofs.Configure_term Proofs.Configure_content
  Proofs.Configure_complete.

(* Reading every branch of the configured tree back as a triple (the concept
   branch [/ c] of node v as (v, :instance, c); a nested node as its variable)
   and applying the model's single deinversion gives exactly the triples of g
   -- as a MULTISET: nothing dropped, duplicated or re-targeted -- minus the
   instance triples whose concept is None or '' (written [(v)], which decode
   reads back as (v, :instance, None)).  Constants are compared by written
   form ([tkey]).  The root is the requested top and no variable owns two
   nodes (C03_top_and_nodes). *)
Theorem C03_content_preserved_partial : forall m g top t,
  configure m g top = Ok t -> triples g <> [] -> roles_have_colon g -> layout_only g ->
  deinverts m = true -> roles_invertible m g ->
  Permutation (tree_content m (tree_triples t)) (graph_content m g).
Proof. exact configure_content_deinverted_spec. Qed.
Print Assumptions C03_content_preserved_partial.

(* encode succeeds on every well-formed graph whose variables are all weakly
   connected to the requested top, from ANY top, for ANY order of the triples
   (the triple list is universally quantified), and the tree has the content
   of the graph *)
Theorem C03_encoding_total_and_faithful : forall m g top tp,
  wf_graph m g -> requested_top g top = Some tp -> connected g tp ->
  layout_only g -> pushes_name_variables g -> deinverts m = true ->
  exists t, configure m g top = Ok t /\
    node_var (troot t) = tp /\
    NoDup (map akey (tree_node_vars t)) /\
    Permutation (tree_content m (tree_triples t)) (graph_content m g).
Proof. exact configure_total_and_faithful. Qed.
Print Assumptions C03_encoding_total_and_faithful.

Theorem C03_top_and_nodes : forall m g top t,
  configure m g top = Ok t -> triples g <> [] -> roles_have_colon g -> layout_only g ->
  exists tp,
    requested_top g top = Some tp /\ node_var (troot t) = tp /\
    NoDup (map akey (tree_node_vars t)) /\
    exists bss, Forall2 (expressed_as m) (triples g) bss /\
                Permutation (tree_triples t) (concat bss).
Proof. exact configure_places_each_triple_once_spec. Qed.
Print Assumptions C03_top_and_nodes.

(* [roles_invertible] holds for canonical roles of an of_free model (C13) *)
Theorem C03_canonical_roles_invertible : forall m g, Spec.RoleAlgebra.of_free m ->
  (forall t, In t (triples g) -> is_instance t = false ->
     Spec.RoleAlgebra.canonical m (trole t) /\
     str_eqb (invert_role m (trole t)) INSTANCE = false) ->
  roles_invertible m g.
Proof. exact canonical_roles_invertible. Qed.
Print Assumptions C03_canonical_roles_invertible.

(* [roles_have_colon] is what the Graph constructor establishes *)
Theorem C03_graph_constructor_roles : forall ts top ed meta,
  roles_have_colon (mk_graph ts top ed meta).
Proof. exact mk_graph_roles_colon. Qed.
Print Assumptions C03_graph_constructor_roles.

(* The formatter (non-compact mode, every indent) writes every edge it is
   given, and an atomic target is omitted only if it is None or '': numbers,
   0 and 0.0 included, are written (false before the F5 repair). *)
Theorem C03_zero_is_written : forall indent column var e es, falsy var = false ->
  format_node indent column [] (Node var (e :: es)) =
  [40%N] ++ atom_str var ++ SPACE ++
  join (node_joiner indent (node_column indent column var))
       (map (edge_text indent (node_column indent column var)) (e :: es)) ++ [41%N].
Proof. exact format_node_shape. Qed.
Print Assumptions C03_zero_is_written.

Theorem C03_number_text : forall indent c r t z,
  edge_text indent c (r, TAtom (ANum t z)) = role_text r ++ SPACE ++ t.
Proof. exact number_is_written. Qed.
Print Assumptions C03_number_text.

Theorem C03_atom_omitted_iff_missing : forall a, atom_text a = [] <-> no_concept a = true.
Proof. exact atom_written_iff. Qed.
Print Assumptions C03_atom_omitted_iff_missing.

Require Import Coq.Strings.String.

(* witnesses *)
Example C03_F5_witness_zero_written :
  exists t, configure default_model f5_graph None = Ok t /\
            format (Some (-1)%Z) false t = s2l "(a / x
   :quant 0)".
Proof. exact f5_zero_is_written. Qed.

Example C03_zero_concept_written :
  exists t, configure default_model
              (mkGraph [(sym "a", INSTANCE, ANum (s2l "0") true)] None [] []) None = Ok t /\
            format (Some (-1)%Z) false t = s2l "(a / 0)".
Proof. exact zero_concept_is_written. Qed.

Example C03_hypotheses_satisfiable :
  triples f14_graph <> [] /\ roles_have_colon f14_graph /\ layout_only f14_graph /\
  deinverts default_model = true /\ roles_invertible default_model f14_graph.
Proof. exact f14_graph_hypotheses. Qed.

Example C03_connected_hypotheses_satisfiable :
  wf_graph default_model f14_graph /\ connected f14_graph (sym "b") /\
  layout_only f14_graph /\ pushes_name_variables f14_graph.
Proof. exact f14_connected_wf. Qed.

(* FULL STATEMENT, of which the above is the graph-to-tree half (the rest is
   the text round trip of C01/C04 applied to the configured tree):
     wf_graph m g -> connected g top -> deinverts m = true ->
     exists s, encode m g top = Ok s /\ graph_eq m (decode m s) (retop g top). *)
