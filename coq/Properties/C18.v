(** C18 -- constant quoting, evaluation and typing are consistent with the
    notation.  ONLY statements here; proofs live in Proofs/Constant_lemmas.v,
    the model in Impl/Constant.v (quote = json.dumps, evaluate with a complete
    recogniser of what json.loads accepts, type) and Impl/Lexer.v.

    [scalar_str x]: every code point of x is below 0x110000 and outside
    D800..DFFF (N5: two adjacent lone surrogates are joined by json.loads, see
    C18_lone_surrogates_not_recovered). *)
From PM Require Import Impl.Lexer Impl.Constant Proofs.Constant_lemmas.
Open Scope N_scope.

(** * quoting *)

(* the text quote produces is read by the lexer as exactly one STRING token
   spanning all of it, under both token tables; this holds for EVERY str
   (no scalar_str needed).  lex_line = regex.finditer over one line. *)
Theorem C18_quote_one_string_token : forall alts ln x,
  alts = PENMAN_ALTS \/ alts = TRIPLE_ALTS ->
  lex_line alts ln (quote_str x) = [mkToken STRING (quote_str x) ln 0].
Proof. exact lex_line_quote. Qed.
Print Assumptions C18_quote_one_string_token.

(* the same through lex(str): the quoted text has no line break, so it is line 1 *)
Theorem C18_quote_one_string_token_lex : forall alts x,
  alts = PENMAN_ALTS \/ alts = TRIPLE_ALTS ->
  lex_str alts (quote_str x) = [mkToken STRING (quote_str x) 1 0].
Proof. exact lex_str_quote. Qed.
Print Assumptions C18_quote_one_string_token_lex.

(* the quoted text is printable ASCII (SP..tilde) only *)
Theorem C18_quote_printable_ascii : forall x,
  forallb (fun c => N.leb 32 c && N.leb c 126) (quote_str x) = true.
Proof. exact quote_str_printable. Qed.
Print Assumptions C18_quote_printable_ascii.

(* evaluating the quoted text gives back the original string (BMP escapes and
   surrogate pairs for astral code points included) *)
Theorem C18_evaluate_quote : forall x, scalar_str x ->
  evaluate (Some (quote_str x)) = RStr x.
Proof. exact evaluate_quote. Qed.
Print Assumptions C18_evaluate_quote.

(* and it is typed as a String *)
Theorem C18_type_quote : forall x, scalar_str x -> ctype (Some (quote_str x)) = TyString.
Proof. exact type_quote. Qed.
Print Assumptions C18_type_quote.

(* N5: scalar_str cannot be dropped from C18_evaluate_quote *)
Theorem C18_lone_surrogates_not_recovered :
  exists x, evaluate (Some (quote_str x)) <> RStr x.
Proof. exists [55357; 56832]. rewrite ex_lone_surrogates_joined. discriminate. Qed.
Print Assumptions C18_lone_surrogates_not_recovered.

(* quoting a number is quoting its str() text; quoting None is the empty string constant *)
Theorem C18_quote_num : forall txt z, quote (ANum txt z) = quote_str txt.
Proof. exact quote_num. Qed.
Print Assumptions C18_quote_num.
Theorem C18_quote_none : quote ANone = [34; 34].
Proof. exact quote_none. Qed.
Print Assumptions C18_quote_none.

(** * evaluation *)

(* the recogniser's fuel always suffices: evaluate and type end in one of
   None / int / float / str / ConstantError (resp. a Type / ConstantError) *)
Theorem C18_evaluate_total : forall o, evaluate o <> RFuel.
Proof. exact evaluate_fuel. Qed.
Print Assumptions C18_evaluate_total.
Theorem C18_type_total : forall o, ctype o <> TyFuel.
Proof. exact ctype_fuel. Qed.
Print Assumptions C18_type_total.

(* int / float only for JSON number syntax (declarative grammar json_integer /
   json_float of Constant_lemmas, independent of scan_number), and with the
   right class: int exactly for the literals without fraction and exponent *)
Theorem C18_number_only_for_json_number : forall s,
  (evaluate (Some s) = RInt -> json_integer (strip_json_ws s)) /\
  (evaluate (Some s) = RFloat -> json_float (strip_json_ws s)).
Proof. exact number_only_for_json_number. Qed.
Print Assumptions C18_number_only_for_json_number.

(* conversely every JSON number literal, padded with JSON blanks or not, IS
   evaluated to a number: a float when it has a fraction or an exponent, an int
   otherwise -- except that an integer part of more than 4300 digits (CPython
   int() limit, F16) leaves the text a symbol *)
Theorem C18_number_complete : forall s,
  (json_float (strip_json_ws s) -> evaluate (Some s) = RFloat) /\
  (forall sg i, strip_json_ws s = sg ++ i -> sign sg -> json_int i ->
     evaluate (Some s) = if N.ltb 4300 (N.of_nat (length i)) then RStr s else RInt).
Proof. exact number_complete. Qed.
Print Assumptions C18_number_complete.

(* None exactly for None and the empty text *)
Theorem C18_null_iff : forall o, evaluate o = RNull <-> o = None \/ o = Some [].
Proof. exact null_iff. Qed.
Print Assumptions C18_null_iff.

(* never a bool / None for a JSON literal: true, false, null -- bare or padded
   with JSON blanks (F24) -- evaluate to the text itself.  (result has no
   constructor for bool, NaN or containers: arrays and objects end in
   ConstantError, NaN / Infinity come back as the str.) *)
Theorem C18_never_bool : forall s,
  str_in (strip_json_ws s) [TRUE_S; FALSE_S; NULL_S] = true -> evaluate (Some s) = RStr s.
Proof. exact literals_are_symbols. Qed.
Print Assumptions C18_never_bool.

(** * typing *)

(* the reported Type is the _typemap image of the evaluated value's Python
   type, String exactly for a str whose text starts and ends with a dquote *)
Theorem C18_type_matches : forall s, type_agrees s (evaluate (Some s)) (ctype (Some s)).
Proof. exact type_matches. Qed.
Print Assumptions C18_type_matches.
Theorem C18_type_none : ctype None = TyNull /\ evaluate None = RNull.
Proof. exact type_none. Qed.
Print Assumptions C18_type_none.

(** * non-vacuity (kernel computation on concrete inputs) *)

(* a string with dquote, backslash, LF, U+2028, U+1F600, NUL, e-acute, DEL *)
Example C18_example_roundtrip :
  scalar_str ex_x /\ quote_str ex_x = ex_q /\
  lex_str PENMAN_ALTS ex_q = [mkToken STRING ex_q 1 0] /\
  lex_str TRIPLE_ALTS ex_q = [mkToken STRING ex_q 1 0] /\
  evaluate (Some ex_q) = RStr ex_x /\ ctype (Some ex_q) = TyString.
Proof.
  split; [exact ex_scalar|]. split; [exact ex_quote|].
  split; [exact (proj1 ex_lex)|]. split; [exact (proj2 ex_lex)|]. exact ex_evaluate.
Qed.
Print Assumptions C18_example_roundtrip.

(* 12 -> int, -1.5e3 -> float, 4300 digits -> int, 4301 digits -> the text (F16) *)
Example C18_example_numbers :
  evaluate (Some [49;50]) = RInt /\ evaluate (Some [45;49;46;53;101;51]) = RFloat /\
  evaluate (Some (repeat 49 4300)) = RInt /\
  evaluate (Some (repeat 49 4301)) = RStr (repeat 49 4301).
Proof.
  split; [exact (proj1 ex_evaluate_table)|]. split; [exact (proj1 (proj2 ex_evaluate_table))|].
  split; [exact (proj1 ex_int_limit)|exact (proj1 (proj2 ex_int_limit))].
Qed.
Print Assumptions C18_example_numbers.

(* the declarative grammar is inhabited: -12 is a json_integer, 0.5E+1 a json_float *)
Example C18_example_grammar : json_integer [45; 49; 50] /\ json_float [48; 46; 53; 69; 43; 49].
Proof. split; [exact ex_json_integer|exact ex_json_float]. Qed.
Print Assumptions C18_example_grammar.
