(** C20c -- byte idempotence of the penman command for the option sets with
    --reify-edges / --dereify-edges / --reify-attributes (with or without
    --canonicalize-roles, any formatting), which Properties/C20.v and C20b.v leave to the oracle.
    ONLY statements here; the vocabulary is Spec/Idle.v, the proofs are in
    Proofs/NormIdem_lemmas.v.

    Shape of the result.  Idempotence of these option sets is FALSE in general on
    /repo (known findings F30 and F32: machine-checked witnesses below), so it is
    proved under a DECIDABLE condition on what the first pass wrote, the
    idempotence certificate (Spec/Idle.v):
      reify_canon_only o    no --indicate-branches, --reconfigure,
                            --rearrange, --make-variables, --check, --triples;
      second_pass_idle_c o t1   the tree t1 the first pass formats is well formed
                            (C01), and, canonicalised again when that option is on,
                            it is a layout tree (C02) with a root variable, formats
                            to the same text, and its interpretation has no
                            reifiable role (if --reify-edges), an empty dereification
                            agenda (if --dereify-edges) and no attribute (if
                            --reify-attributes) left;
      idempotence_certificate o s   the above for every graph of the input s.
    The harness evaluates the certificate through the extracted model on every
    generated case of these option sets: where it holds, idempotence follows from
    the theorem below and the Impl.Cli correspondence; where it does not, the case
    is left to the oracle (and is where F30 / F32 live).

    Graph level: a graph without reifiable roles (without attributes) is a fixed
    point of reify_edges (reify_attributes), and with C11_reify_no_reifiable /
    C12_reify_attributes_no_attr both reifications are idempotent. *)
From PM Require Import Spec.Idle Spec.WfGraph.
From PM Require Import Proofs.Transform_lemmas Proofs.NormIdem_lemmas Proofs.IdleGen Proofs.NormIdemGen_lemmas.

(* ------------------------------------------------------------------ *)
(** * Graph level *)

Theorem C20c_reify_edges_fixed_point : forall m g, no_reifiable m g = true -> closed_graph g ->
  reify_edges m g = Ok g.
Proof. exact reify_edges_fixed. Qed.
Print Assumptions C20c_reify_edges_fixed_point.

Theorem C20c_reify_attributes_fixed_point : forall g, no_attributes g = true -> closed_graph g ->
  reify_attributes g = Ok g.
Proof. exact reify_attributes_fixed. Qed.
Print Assumptions C20c_reify_attributes_fixed_point.

Theorem C20c_dereify_edges_fixed_point : forall m g, agenda_empty m g = true -> closed_graph g ->
  dereify_edges m g = Ok g.
Proof. exact dereify_edges_fixed. Qed.
Print Assumptions C20c_dereify_edges_fixed_point.

(* what interpret returns for a tree with a root variable, and what either
   reification returns, is closed (the Graph constructor applied to its fields
   gives it back) *)
Theorem C20c_closed_graphs :
  (forall m t g, interpret m t = Ok g -> node_var (troot t) <> ANone -> closed_graph g) /\
  (forall m g g', reify_edges m g = Ok g' -> closed_graph g') /\
  (forall g g', reify_attributes g = Ok g' -> closed_graph g').
Proof. split; [exact interpret_closed | split; [exact reify_edges_closed | exact reify_attributes_closed]]. Qed.
Print Assumptions C20c_closed_graphs.

Theorem C20c_reify_edges_idempotent : forall m g g', node_graph g ->
  (forall t, In t (triples g) -> row_shape_ok m (trole t) = true) ->
  reify_edges m g = Ok g' -> reify_edges m g' = Ok g'.
Proof. exact reify_edges_idem. Qed.
Print Assumptions C20c_reify_edges_idempotent.

Theorem C20c_reify_attributes_idempotent : forall g g',
  reify_attributes g = Ok g' -> reify_attributes g' = Ok g'.
Proof. exact reify_attributes_idem. Qed.
Print Assumptions C20c_reify_attributes_idempotent.

(* ------------------------------------------------------------------ *)
(** * The command *)

(* when the graph entering the reify stage has nothing to reify, the run equals
   (and, for --dereify-edges, nothing to collapse: its agenda is empty), the run
   equals the run without these three options, whatever the other options *)
Theorem C20c_idle_reify_options_can_be_struck : forall o t g,
  entering_graph o t = Ok g -> closed_graph g -> idle_on o g = true ->
  pipeline o t = pipeline (strip_reify o) t.
Proof. exact pipeline_strip. Qed.
Print Assumptions C20c_idle_reify_options_can_be_struck.

(* the per-tree fixed point *)
Theorem C20c_tree_fixed : forall o t1, reify_canon_only o = true ->
  second_pass_idle_c o t1 = true ->
  wf_tree t1 = true /\ pipeline o t1 = Ok (format (o_indent o) (o_compact o) t1).
Proof. exact reify_canon_tree_fixed. Qed.
Print Assumptions C20c_tree_fixed.

(* the stream, status included *)
Theorem C20c_stream_idempotent : forall o s out code, reify_canon_only o = true ->
  Forall (fun t => exists t1, pre_format o t = Ok t1 /\ second_pass_idle_c o t1 = true)
         (fst (iterparse_str s)) ->
  run o [] s = Ok (out, code) -> run o [] out = Ok (out, code).
Proof. exact reify_canon_idempotent. Qed.
Print Assumptions C20c_stream_idempotent.

(* the boolean certificate the harness evaluates *)
Theorem C20c_certificate_sound : forall o s out code, idempotence_certificate o s = true ->
  run o [] s = Ok (out, code) -> run o [] out = Ok (out, code).
Proof. exact certificate_sound. Qed.
Print Assumptions C20c_certificate_sound.

(* without --canonicalize-roles the condition is about the first-pass output itself *)
Theorem C20c_certificate_without_canonicalize : forall o t1, o_canonicalize_roles o = false ->
  second_pass_idle_c o t1 = second_pass_idle o t1.
Proof. exact second_pass_idle_c_plain. Qed.
Print Assumptions C20c_certificate_without_canonicalize.

(* ------------------------------------------------------------------ *)
(** * The reify / dereify options together with --rearrange and --make-variables

    Vocabulary (Proofs/IdleGen.v): [layout_tree_of o t] is the tree t0 the layout stage
    returns for the input tree t; [general_idle o t]: t0 is well formed (C01), a layout
    tree (C02) without empty concept slots ([concepts_written]), C10's provisos hold
    for the names --make-variables gives RA o t0 ([relabel_certified]: the format has
    an index, the new names are Symbols, no constant is spelled like one), and the
    interpretation of what is finally written leaves the reify / dereify options
    nothing to do; [general_certificate o s]: no --canonicalize-roles,
    --indicate-branches, --reconfigure, --check, --triples and the above for every
    graph of s; [any_certificate] = this one or the one of the previous section. *)

Theorem C20c_no_empty_concept_slot : forall t, concepts_written (troot t) = true ->
  drop_empty_concepts t = t.
Proof. exact concepts_written_tree. Qed.
Print Assumptions C20c_no_empty_concept_slot.

(* what is written is the rearranged, relabelled layout output *)
Theorem C20c_written_tree : forall o t t0, layout_tree_of o t = Ok t0 ->
  pre_format o t = relabel o (RA o t0).
Proof. exact pre_format_after_layout. Qed.
Print Assumptions C20c_written_tree.

Theorem C20c_general_tree_fixed : forall o t, tree_opts_only (strip_reify o) = true ->
  general_idle o t = true ->
  exists t1, pre_format o t = Ok t1 /\ wf_tree t1 = true /\
             pipeline o t1 = Ok (format (o_indent o) (o_compact o) t1).
Proof. exact general_tree_fixed. Qed.
Print Assumptions C20c_general_tree_fixed.

Theorem C20c_general_idempotent : forall o s out code, general_certificate o s = true ->
  run o [] s = Ok (out, code) -> run o [] out = Ok (out, code).
Proof. exact general_idempotent. Qed.
Print Assumptions C20c_general_idempotent.

Theorem C20c_any_certificate_sound : forall o s out code, any_certificate o s = true ->
  run o [] s = Ok (out, code) -> run o [] out = Ok (out, code).
Proof. exact any_certificate_sound. Qed.
Print Assumptions C20c_any_certificate_sound.

(* ------------------------------------------------------------------ *)
(** * The certificate holds somewhere, and fails exactly where idempotence fails *)
From PM Require Import Gen.AmrTable.

Definition c20c_opts (canon : bool) : cli_opts :=
  mkOpts amr_model canon true false true false None None None (Some (-1)%Z) false false false [].
Definition c20c_two_graphs : str := [35;32;58;58;105;100;32;55;10;40;119;32;47;32;119;97;110;116;45;48;49;32;58;109;111;100;32;40;98;32;47;32;98;111;121;32;58;113;117;97;110;116;32;51;41;32;58;112;111;108;97;114;105;116;121;32;45;32;58;65;82;71;49;45;111;102;32;40;103;32;47;32;103;111;32;58;109;111;100;45;111;102;32;98;41;41;10;10;40;97;32;47;32;97;108;112;104;97;32;58;108;111;99;97;116;105;111;110;32;40;99;32;47;32;99;105;116;121;32;58;110;97;109;101;32;34;88;32;89;34;41;41;10]%N.
Definition c20c_f30 : str := [40;97;32;47;32;97;108;112;104;97;32;58;108;111;99;97;116;105;111;110;45;111;102;32;120;41;10]%N.
Definition c20c_f32 : str := [40;97;32;47;32;113;32;58;65;82;71;49;32;40;98;32;47;32;121;32;58;115;117;98;115;101;116;32;40;99;32;47;32;100;111;103;41;41;32;58;109;111;100;45;111;102;32;98;41;10]%N.

Definition second_pass_same (o : cli_opts) (s : str) : option bool :=
  match run o [] s with
  | Ok (out, c) => match run o [] out with Ok (out2, c2) => Some (str_eqb out out2 && Bool.eqb c c2) | _ => None end
  | _ => None
  end.

(* two graphs (metadata, a reifiable edge, a reifiable attribute, an inverted
   reifiable edge, a string constant) under --amr --reify-edges
   --reify-attributes, with and without --canonicalize-roles *)
Example C20c_certificate_nonvacuous :
  length (fst (iterparse_str c20c_two_graphs)) = 2 /\
  idempotence_certificate (c20c_opts false) c20c_two_graphs = true /\
  idempotence_certificate (c20c_opts true) c20c_two_graphs = true /\
  second_pass_same (c20c_opts false) c20c_two_graphs = Some true /\
  second_pass_same (c20c_opts true) c20c_two_graphs = Some true.
Proof. vm_compute. repeat split. Qed.

(* --dereify-edges alone: the reified node of the input is collapsed by the first
   pass, the second pass has an empty agenda *)
Definition c20c_dereify_opts : cli_opts :=
  mkOpts amr_model false false true false false None None None (Some (-1)%Z) false false false [].
Definition c20c_reified : str := [40;97;32;47;32;97;108;112;104;97;10;32;32;32;58;65;82;71;49;45;111;102;32;40;95;32;47;32;104;97;118;101;45;109;111;100;45;57;49;10;32;32;32;32;32;32;32;32;32;32;32;32;32;32;32;32;58;65;82;71;50;32;40;98;32;47;32;98;101;116;97;41;41;41;10]%N.
Example C20c_dereify_certified :
  idempotence_certificate c20c_dereify_opts c20c_reified = true /\
  second_pass_same c20c_dereify_opts c20c_reified = Some true /\
  (match run c20c_dereify_opts [] c20c_reified with Ok (out, _) => negb (str_eqb out c20c_reified) | _ => false end) = true.
Proof. vm_compute. repeat split. Qed.

(* F30: an attribute written with an inverted reifiable role -- not certified, and
   the second pass does change the text *)
Example C20c_F30_refuted :
  idempotence_certificate (c20c_opts false) c20c_f30 = false /\
  second_pass_same (c20c_opts false) c20c_f30 = Some false.
Proof. vm_compute. split; reflexivity. Qed.

(* F32: --canonicalize-roles --reify-edges on a normalised inverse role *)
Example C20c_F32_refuted :
  idempotence_certificate (c20c_opts true) c20c_f32 = false /\
  second_pass_same (c20c_opts true) c20c_f32 = Some false.
Proof. vm_compute. split; reflexivity. Qed.

(* F33: --canonicalize-roles --dereify-edges; the dereified edge is written
   against its direction and that spelling has a normalisation *)
Definition c20c_f33_opts : cli_opts :=
  mkOpts amr_model true false true false false None None None (Some (-1)%Z) false false false [].
Definition c20c_f33 : str := [40;97;32;47;32;100;111;103;32;58;65;82;71;50;45;111;102;32;40;95;32;47;32;104;97;118;101;45;109;111;100;45;57;49;32;58;65;82;71;49;32;40;98;32;47;32;98;105;103;41;41;41;10]%N.
Example C20c_F33_refuted :
  idempotence_certificate c20c_f33_opts c20c_f33 = false /\
  second_pass_same c20c_f33_opts c20c_f33 = Some false.
Proof. vm_compute. split; reflexivity. Qed.

(* --amr --reify-edges --reify-attributes --rearrange attributes-first,canonical
   --make-variables x{i} --indent no --compact on the two graphs above: certified
   by the general certificate (not by the first one), and idempotent *)
Definition c20c_all_opts : cli_opts :=
  mkOpts amr_model false true false true false None
         (Some [UAttributesFirst; UCanonical]) (Some [Lit [120%N]; Idx]) None true false false [].
Example C20c_general_certificate_nonvacuous :
  idempotence_certificate c20c_all_opts c20c_two_graphs = false /\
  general_certificate c20c_all_opts c20c_two_graphs = true /\
  second_pass_same c20c_all_opts c20c_two_graphs = Some true /\
  (match run c20c_all_opts [] c20c_two_graphs with Ok (out, _) => negb (str_eqb out c20c_two_graphs) | _ => false end) = true.
Proof. vm_compute. repeat split. Qed.
