(** C13 — role inversion and canonicalisation obey their algebra under every
    model.  ONLY statements here; proofs live in Proofs/Model_lemmas.v.
    Every theorem quantifies over an arbitrary model [m], i.e. an arbitrary
    role-membership predicate [has_exact m : str -> bool]. *)
From PM Require Import Spec.RoleAlgebra Proofs.Model_lemmas.

(* a role the model defines is never considered inverted, even if it ends in -of *)
Theorem C13_defined_never_inverted : forall m r,
  has_exact m r = true -> is_role_inverted m r = false.
Proof. exact defined_never_inverted. Qed.
Print Assumptions C13_defined_never_inverted.

(* the fixpoint loop terminates within the model's fuel *)
Theorem C13_canon_terminates : forall m r, of_free m ->
  exists r', canonicalize_role m r = Some r'.
Proof. exact canon_terminates. Qed.
Print Assumptions C13_canon_terminates.

(* adds the leading colon (the concept role "/" excepted) *)
Theorem C13_canon_adds_colon : forall m r r',
  canonicalize_inversion m (ensure_colon_unless_slash r) = Some r' ->
  r <> SLASHS -> startswith r' [COLON] = true.
Proof. exact canon_adds_colon. Qed.
Print Assumptions C13_canon_adds_colon.

(* normalisation is applied last, to the inversion-canonical role *)
Theorem C13_canon_norm_last : forall m r x,
  canonicalize_role m r = Some x ->
  exists r1, canonicalize_inversion m (ensure_colon_unless_slash r) = Some r1 /\
             x = match dget str_eqb r1 (norms m) with Some v => v | None => r1 end.
Proof. exact canon_norm_last. Qed.
Print Assumptions C13_canon_norm_last.

(* inversions are removed only in pairs; the single other outcome is the one
   pinned by tests/test_model.py (":consist" -> ":consist-of-of" when the model
   defines ":consist-of"): a pair is ADDED to an undefined role that does not
   end in -of and whose single inversion is model-defined. *)
Theorem C13_canon_pairs : forall m r r', of_free m ->
  canonicalize_inversion m r = Some r' ->
  (exists k, r = r' ++ ofs (2 * k)) \/
  (r' = r ++ OF ++ OF /\ has_exact m r = false /\ endswith r OF = false /\
   has_exact m (r ++ OF) = true).
Proof. exact canon_pairs. Qed.
Print Assumptions C13_canon_pairs.

(* inversion canonicalisation is idempotent for EVERY model *)
Theorem C13_canon_inv_idem : forall m r r',
  canonicalize_inversion m r = Some r' -> canonicalize_inversion m r' = Some r'.
Proof. exact canon_inv_idem. Qed.
Print Assumptions C13_canon_inv_idem.

(* full canonicalisation is idempotent when normalisation targets are closed
   and the model does not define "/-of".  (Without the second hypothesis the
   statement is false: a model defining "/-of" but not "/" sends "/" to
   "/-of-of", which then gets a colon: ":/-of-of" -> ":/".  See
   Model_lemmas.canon_idem_original_statement_false.) *)
Theorem C13_canon_idem : forall m r x, norm_closed_b m = true ->
  has_exact m (SLASHS ++ OF) = false ->
  canonicalize_role m r = Some x -> canonicalize_role m x = Some x.
Proof. exact canon_idem. Qed.
Print Assumptions C13_canon_idem.

(* F19 (known finding): without [norm_closed_b] idempotence fails *)
Theorem C13_canon_idem_refuted_for_chained_normalisations :
  exists m r x, canonicalize_role m r = Some x /\ canonicalize_role m x <> Some x.
Proof. exact canon_idem_refuted. Qed.
Print Assumptions C13_canon_idem_refuted_for_chained_normalisations.

(* on canonical roles inverting is an involution that flips inverted-ness *)
Theorem C13_invert_involutive : forall m r, of_free m -> canonical m r ->
  invert_role m (invert_role m r) = r.
Proof. exact invert_involutive. Qed.
Print Assumptions C13_invert_involutive.

Theorem C13_invert_flips : forall m r, of_free m -> canonical m r ->
  is_role_inverted m (invert_role m r) = negb (is_role_inverted m r).
Proof. exact invert_flips. Qed.
Print Assumptions C13_invert_flips.

(* inverting a triple swaps source and target *)
Theorem C13_invert_triple_swaps : forall m s r t,
  invert m (s, r, t) = (t, invert_role m r, s).
Proof. exact invert_triple_swaps. Qed.
Print Assumptions C13_invert_triple_swaps.

(* deinvert = invert on inverted triples, identity otherwise; identity for no-op *)
Theorem C13_deinvert_inverted : forall m t, deinverts m = true ->
  is_role_inverted m (trole t) = true -> deinvert m t = invert m t.
Proof. exact deinvert_inverted. Qed.
Print Assumptions C13_deinvert_inverted.

Theorem C13_deinvert_plain : forall m t,
  is_role_inverted m (trole t) = false -> deinvert m t = t.
Proof. exact deinvert_plain. Qed.
Print Assumptions C13_deinvert_plain.

Theorem C13_noop_deinvert_id : forall m t, deinverts m = false -> deinvert m t = t.
Proof. exact noop_deinvert_id. Qed.
Print Assumptions C13_noop_deinvert_id.

(* canonicalising a tree changes role text only: variables, targets, branch
   count/order and alignment suffixes are unchanged *)
Theorem C13_canon_tree_shape : forall m n n', norm_closed_b m = true ->
  canon_node m n = Some n' -> shape_of_node n' = shape_of_node n.
Proof. exact canon_tree_shape. Qed.
Print Assumptions C13_canon_tree_shape.

(* ... and is idempotent *)
Theorem C13_canon_tree_idem : forall m n n', norm_closed_b m = true ->
  has_exact m (SLASHS ++ OF) = false ->
  canon_node m n = Some n' -> canon_node m n' = Some n'.
Proof. exact canon_tree_idem. Qed.
Print Assumptions C13_canon_tree_idem.

(* non-vacuity: a canonical role exists under a model satisfying [of_free] *)
Example C13_nonvacuous :
  canonical default_model [58;65;82;71;48;45;111;102]%N /\
  norm_closed_b default_model = true.
Proof. split; vm_compute; reflexivity. Qed.
