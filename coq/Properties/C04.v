(** C04 — decoding yields exactly the documented reading of the notation.
    ONLY statements here; proofs live in Proofs/Interpret_lemmas.v.
    [interpret] is the model of penman.layout.interpret (Impl/Interpret.v);
    [reading] is the independent reference of Spec/Reading.v.  Every theorem
    quantifies over ALL trees (no well-formedness) and an arbitrary model [m]. *)
From PM Require Import Impl.Interpret Spec.Reading Proofs.Interpret_lemmas.

(* Both fail with the same error (SurfaceError for an alignment suffix that
   does not parse; TypeError for a non-zero number as atomic target), or both
   succeed and agree on: top, the ordered triples, the set of variables, both
   alignment maps, the whole epigraph (markers and their order), metadata. *)
Theorem C04_interpret_is_reading : forall m t,
  (exists r g, reading m t = Ok r /\ interpret m t = Ok g /\
     gtop g = top_slot (r_top r) /\
     triples g = r_triples r /\
     (forall a, mem atom_eqb a (variables g) = mem atom_eqb a (r_vars r)) /\
     alignments g = map aln_entry (r_aligns r) /\
     role_alignments g = map raln_entry (r_raligns r) /\
     epidata g = map item_entry (firsts (r_items r)) /\
     gmeta g = tmeta t) \/
  (reading m t = SurfaceErr /\ interpret m t = SurfaceErr) \/
  (reading m t = Other 6 /\ interpret m t = Other 6).
Proof. exact interpret_is_reading. Qed.
Print Assumptions C04_interpret_is_reading.

(* the same, as one equation between graphs *)
Theorem C04_interpret_is_reading_graph : forall m t,
  interpret m t = reading_as_graph m t.
Proof. exact interpret_is_reading_graph. Qed.
Print Assumptions C04_interpret_is_reading_graph.

(* one triple per branch, plus one per node that writes no concept *)
Theorem C04_triple_count : forall m t g, interpret m t = Ok g ->
  length (triples g) = count_branches (troot t) + count_conceptless (troot t).
Proof. exact triple_count. Qed.
Print Assumptions C04_triple_count.

(* under a model that never deinverts, the triples are the text as written
   (role and orientation kept), for re-entrancies as for nested nodes *)
Theorem C04_noop_never_deinverts : forall m t g, deinverts m = false -> interpret m t = Ok g ->
  triples g = map with_colon (written_triples (troot t)) /\
  forall r it, reading m t = Ok r -> In it (r_items r) ->
    i_winv it = false /\ tsrc (i_triple it) = i_ctx it.
Proof. exact noop_never_deinverts. Qed.
Print Assumptions C04_noop_never_deinverts.

(* an inverted role is deinverted ONCE, only towards a node (nested, or an atom
   that is a variable of the tree); everything else stays as written *)
Theorem C04_orientation : forall m v r x edge_like,
  orient m v r x edge_like = ((v, r, x), false) \/
  (orient m v r x edge_like = ((x, drop_last 3 r, v), true) /\
   deinverts m = true /\ is_role_inverted m r = true /\ edge_like = true).
Proof. exact orient_cases. Qed.
Print Assumptions C04_orientation.

(* a string lexeme is never split: tilde inside the quotes is content *)
Theorem C04_tilde_in_string_is_content : forall m t r it role s,
  reading m t = Ok r -> In it (r_items r) ->
  i_src it = Some (role, Some (AStr s)) -> complete_string s = true ->
  i_talign it = None /\
  (if i_winv it then tsrc (i_triple it) else ttgt (i_triple it)) = AStr s.
Proof. exact tilde_in_string_is_content. Qed.
Print Assumptions C04_tilde_in_string_is_content.

Theorem C04_tilde_in_string_impl : forall s, complete_string s = true ->
  process_atomic (AStr s) = Ok (AStr s, []).
Proof. exact process_string_lexeme. Qed.
Print Assumptions C04_tilde_in_string_impl.

(* layout markers: the (first) triple of a branch that opens a nested node
   carries Push of that node's variable, a triple carries one POP per nested
   node whose last triple it is; pushes and pops are balanced *)
Theorem C04_layout_markers : forall m t r g, reading m t = Ok r -> interpret m t = Ok g ->
  (forall it, In it (firsts (r_items r)) ->
     epis_of g (i_triple it) = item_markers it /\
     find is_push (epis_of g (i_triple it)) = option_map Push (i_opened it) /\
     length (filter is_pop (epis_of g (i_triple it))) = i_closes it) /\
  sum (map opens (r_items r)) = count_nested (troot t) /\
  sum (map i_closes (r_items r)) = count_nested (troot t).
Proof. exact layout_markers. Qed.
Print Assumptions C04_layout_markers.

(* [i_closes] (handed down the tree by the reading) is the same as patching
   the node's last triple once per enclosing node that ends there *)
Theorem C04_closes_land_on_last : forall m vars n k, exists init it,
  node_items m vars n k = init ++ [it] /\
  node_items m vars n (S k) = init ++ [inc_closes it].
Proof. exact closes_land_on_last. Qed.
Print Assumptions C04_closes_land_on_last.

(* non-vacuity: (a :R-of (b / y~1 :s "x~y") :R-of b) under the no-op model *)
Definition c04_example : tree :=
  mkTree (Node (AStr [97]%N)
    [([58;82;45;111;102]%N,
      TNode (Node (AStr [98]%N)
        [(SLASHS, TAtom (AStr [121;126;49]%N));
         ([58;115]%N, TAtom (AStr [34;120;126;121;34]%N))]));
     ([58;82;45;111;102]%N, TAtom (AStr [98]%N))]) [].
Example C04_nonvacuous :
  deinverts noop_model = false /\
  complete_string [34;120;126;121;34]%N = true /\
  (exists g, interpret noop_model c04_example = Ok g /\ length (triples g) = 5) /\
  (exists g, interpret default_model c04_example = Ok g /\
     triples g = [(AStr [97]%N, INSTANCE, ANone);
                  (AStr [98]%N, [58;82]%N, AStr [97]%N);
                  (AStr [98]%N, INSTANCE, AStr [121]%N);
                  (AStr [98]%N, [58;115]%N, AStr [34;120;126;121;34]%N);
                  (AStr [98]%N, [58;82]%N, AStr [97]%N)]).
Proof.
  split; [reflexivity|]. split; [reflexivity|]. split; eexists; split; vm_compute; reflexivity.
Qed.
