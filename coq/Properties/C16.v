(** C16 -- model checking is sound and complete, and --check reports it in the
    exit status.  ONLY statements here; proofs live in Proofs/Errors_lemmas.v.

    Model: Impl/Errors.v ([errors] = Model.errors with _dfs on fuel,
    [check_graph] = __main__._check, [cli_exit_code] = the exit status of main).
    Vocabulary: Spec/Connectivity.v ([reachable] = reflexive-symmetric-
    transitive closure of the non-instance triples between sources,
    [reported e k msg] = message msg is listed under context k).

    Guard [str_sources gr]: every source is a Python str.  Outside it the real
    code may raise TypeError in sorted(unreachable); the model is total there,
    so the library theorems are stated under the guard although their proofs
    do not use it. *)
From PM Require Import Spec.Connectivity Proofs.Errors_lemmas.

(* "invalid role" is reported for exactly the triples (of the graph) whose
   role is neither defined by the model nor a single inversion of a defined role *)
Theorem C16_invalid_role_iff : forall m gr, str_sources gr -> forall t,
  reported (errors m gr) (Some t) InvalidRole <->
  tmem t (triples gr) = true /\ ~ role_defined m (trole t).
Proof. exact invalid_role_iff_guarded. Qed.
Print Assumptions C16_invalid_role_iff.

(* has_role is "defined directly or as a single inversion" *)
Theorem C16_has_role_defined : forall m r, has_role m r = true <-> role_defined m r.
Proof. exact has_role_defined. Qed.
Print Assumptions C16_has_role_defined.

(* _dfs, run with the model's own fuel, terminates and returns exactly the
   variables weakly connected to the top (soundness, completeness, fuel) *)
Theorem C16_dfs_is_component : forall m gr top,
  exists res, dfs (snd (first_pass m (triples gr))) top = Some res /\
              forall v, mem atom_eqb v res = true <-> reachable gr top v.
Proof. exact dfs_is_component. Qed.
Print Assumptions C16_dfs_is_component.

(* hence the fuelled report is always produced (no OutOfFuel) *)
Theorem C16_errors_total : forall m gr, errors_opt m gr = Some (errors m gr).
Proof. exact errors_opt_total. Qed.
Print Assumptions C16_errors_total.

(* "unreachable" is reported for exactly the triples whose source is not weakly
   connected to the top -- and only when the top is set and is a source *)
Theorem C16_unreachable_iff : forall m gr, str_sources gr -> forall t,
  reported (errors m gr) (Some t) Unreachable <->
  tmem t (triples gr) = true /\
  exists top, graph_top gr = Some top /\ falsy top = false /\ is_source gr top /\
              ~ reachable gr top (tsrc t).
Proof. exact unreachable_iff_guarded. Qed.
Print Assumptions C16_unreachable_iff.

(* the general messages appear (under the None context only) exactly when they apply *)
Theorem C16_general_messages_iff : forall m gr, str_sources gr -> forall k,
  (reported (errors m gr) k Empty <-> k = None /\ triples gr = []) /\
  (reported (errors m gr) k NoTop <->
     k = None /\ triples gr <> [] /\ top_falsy (graph_top gr) = true) /\
  (reported (errors m gr) k TopNotVar <->
     k = None /\ triples gr <> [] /\
     exists top, graph_top gr = Some top /\ falsy top = false /\ ~ is_source gr top).
Proof. exact general_messages_iff_guarded. Qed.
Print Assumptions C16_general_messages_iff.

(* a graph interpreted from a tree whose top node has a non-empty variable only
   ever receives role errors -- within domain restriction N8: no node-target
   branch writes an instance triple (see C16_decoded_guard_is_needed) *)
Theorem C16_decoded_only_role_errors : forall m t g,
  interpret m t = Ok g -> falsy (node_var (troot t)) = false ->
  edges_not_instance m (troot t) = true ->
  forall k msg, reported (errors m g) k msg -> msg = InvalidRole.
Proof. exact decoded_only_role_errors. Qed.
Print Assumptions C16_decoded_only_role_errors.

(* the reason: every source of the interpreted graph hangs off the root *)
Theorem C16_decoded_connected : forall m t g,
  interpret m t = Ok g -> edges_not_instance m (troot t) = true ->
  is_source g (node_var (troot t)) /\
  forall x, In x (triples g) -> reachable g (node_var (troot t)) (tsrc x).
Proof. exact decoded_connected. Qed.
Print Assumptions C16_decoded_connected.

(* the tool exits non-zero exactly when some graph of some input has an error *)
Theorem C16_exit_code_iff : forall m files,
  cli_exit_code m files = true <->
  exists f, In f files /\ exists g, In g f /\ errors m g <> [].
Proof. exact exit_code_iff. Qed.
Print Assumptions C16_exit_code_iff.

Theorem C16_exit_code_stdin_iff : forall m gs,
  cli_exit_code_stdin m gs = true <-> exists g, In g gs /\ errors m g <> [].
Proof. exact exit_code_stdin_iff. Qed.
Print Assumptions C16_exit_code_stdin_iff.

(* _check: status 1 iff the report is non-empty; the report has one entry per
   offending context (pairwise different keys); every reported (context,
   message) lives in some entry i; and entry i is recorded as metadata key
   error-(i+1) = context text + the LAST message of that context *)
Theorem C16_check_records_all : forall m gr,
  let e := errors m gr in
  let md := snd (check_graph m gr) in
  (fst (check_graph m gr) = true <-> e <> []) /\
  keys_nodup ctx_eqb (dkeys e) /\
  (forall k msg, reported e k msg ->
     exists i k' msgs, nth_error e i = Some (k', msgs) /\ ctx_eqb k k' = true /\ In msg msgs) /\
  (forall i k msgs, nth_error e i = Some (k, msgs) ->
     msgs <> [] /\
     dget str_eqb (error_key (N.of_nat i + 1)) md
     = Some (ctx_text k ++ emsg_text (last msgs Empty))).
Proof. exact check_records_all. Qed.
Print Assumptions C16_check_records_all.

(* the error-N keys of different entries are different *)
Theorem C16_error_keys_distinct : forall i j, error_key i = error_key j -> i = j.
Proof. exact error_key_inj. Qed.
Print Assumptions C16_error_keys_distinct.

(* N8 is needed: "(a :instance (b / x))" has a non-empty top node and its
   interpretation is reported unreachable (not a violation: outside the domain) *)
Example C16_decoded_guard_is_needed :
  exists g, interpret default_model tree_instance_edge = Ok g /\
            falsy (node_var (troot tree_instance_edge)) = false /\
            edges_not_instance default_model (troot tree_instance_edge) = false /\
            reported (errors default_model g) (Some (AStr s_b, INSTANCE, AStr s_x)) Unreachable.
Proof. exact decoded_guard_is_needed. Qed.

(* non-vacuity of the conditional theorems *)
Example C16_decoded_nonvacuous :
  exists g, interpret default_model tree_plain = Ok g /\
            falsy (node_var (troot tree_plain)) = false /\
            edges_not_instance default_model (troot tree_plain) = true /\
            length (triples g) = 4 /\
            reported (errors default_model g) (Some (AStr s_a, ARG0, AStr s_b)) InvalidRole.
Proof. exact decoded_nonvacuous. Qed.

Example C16_general_nonvacuous :
  str_sources graph_two_components /\
  reported (errors default_model graph_two_components) (Some (AStr s_b, INSTANCE, AStr s_x)) Unreachable.
Proof. exact general_nonvacuous. Qed.
