(** C20 -- the penman command equals the library pipeline and emits a normal form.
    ONLY statements here; proofs live in Proofs/Cli_lemmas.v.

    Model: Impl/Cli.v mirrors penman/__main__.py ([run] = main, [process_loop] =
    the loop of process with the shared [first] state, [process_tree] = one
    iteration: _process_in, _check, _process_out or format_triples, [make_sort_key]
    = _make_sort_key through the name tables REARRANGE_KEYS / RECONFIGURE_KEYS).
    Vocabulary: Spec/Pipeline.v ([pipeline o] = the DOCUMENTED composition
      format . relabel . rearrange . (reconfigure | configure) . [annotate errors]
             . indicate . reify attributes . dereify . reify . interpret . canonicalise,
    [render_stream] = texts joined by one blank line plus a final line feed,
    [run_spec] = one text per input graph, in order; None = the run raises).
    [ok_of x] forgets WHICH exception a failing run ends with.
    argparse, -q/-v, encodings, the file system and the sort key [random] are
    outside the model.

    IDEMPOTENCE (feeding the output back reproduces it byte for byte): what is
    proved here, and what is left to the oracle of harness/c20.py --
      * every option set without --triples: reduced to a per-tree fixed point
        (C20_idempotence_reduces_to_trees: the second pass parses back exactly the
        trees that were formatted, C20_second_pass_reads_back);
      * no normalisation option (any --indent / --compact, any model, stdin):
        fully proved for streams of well-formed layouts (C20_plain_idempotent);
      * --canonicalize-roles alone (any --indent / --compact): proved when the
        canonicalised trees are well-formed layouts, for models with closed
        normalisation targets that do not define "/-of" (C20_canon_idempotent, from
        C13_canon_tree_idem and C02);
      * option sets with --reify-edges, --dereify-edges, --reify-attributes,
        --rearrange, --make-variables (alone or combined): the per-tree fixed point
        needs that the transformed graph / tree is again a well-formed layout AND is
        left alone by the transformation, which the component theorems (C11 / C12 /
        C05 / C10) do not provide in that form: NOT proved, covered by the oracle
        only (about 3000 / 40000 runs per tier);
      * --reconfigure, --indicate-branches, random keys: not idempotent by design
        (excluded by the property). *)
From PM Require Import Spec.Pipeline Spec.WellFormed Spec.WfLayout Spec.RoleAlgebra Gen.Pins Proofs.Cli_lemmas.

(* ---- the plumbing of the sort keys ---- *)

(* the key tables of the CURRENT /repo source (Gen/Pins.v is regenerated from
   penman/__main__.py on every run) are the tables Impl/Cli.v was written against *)
Theorem C20_key_tables_are_pinned :
  pin_rearrange_keys = REARRANGE_KEYS /\ pin_reconfigure_keys = RECONFIGURE_KEYS.
Proof. exact key_tables_are_pinned. Qed.
Print Assumptions C20_key_tables_are_pinned.

(* for option values argparse accepts, the lookups by name (table, then getattr
   on the model, else a keyword flag) give: the documented methods in the user's
   order, attributes_first=True iff attributes-first is among the keys, and no
   keyword for --reconfigure *)
Theorem C20_sort_key_plumbing : forall o, opts_ok o = true ->
  sort_option (o_rearrange o) REARRANGE_KEYS = Ok (rearr_plumb o) /\
  sort_option (o_reconfigure o) RECONFIGURE_KEYS = Ok (reconf_plumb o).
Proof. exact sort_option_ok. Qed.
Print Assumptions C20_sort_key_plumbing.

(* no key list leaves the model (reaches random_order) *)
Theorem C20_keys_stay_in_model : forall keys T kws funcs,
  T = REARRANGE_KEYS \/ T = RECONFIGURE_KEYS ->
  make_sort_key_loop keys T kws funcs <> Other 0.
Proof. exact make_sort_key_in_model. Qed.
Print Assumptions C20_keys_stay_in_model.

(* ---- (1) the command is the documented pipeline ---- *)

(* one iteration of the loop of process(): the text is the pipeline's, the status
   is "--check and the graph has errors" *)
Theorem C20_process_tree_is_pipeline : forall o t,
  process_tree o (reconf_plumb o) (rearr_plumb o) t
  = (s <- pipeline o t ;; Ok (s, graph_has_errors o t)).
Proof. exact process_tree_pipeline. Qed.
Print Assumptions C20_process_tree_is_pipeline.

(* main() on texts: it succeeds exactly when the option values are accepted,
   every input parses to its end and every application of the pipeline succeeds;
   then stdout is one text per input graph, in order (over all FILE arguments, or
   stdin when there is none), separated by one blank line, and the status is 1
   iff --check is on and some graph has errors.  Otherwise the run fails. *)
Theorem C20_cli_is_pipeline : forall o files stdin,
  ok_of (run o files stdin) = run_spec o (map iterparse_str (inputs_of files stdin)).
Proof. exact run_is_pipeline. Qed.
Print Assumptions C20_cli_is_pipeline.

(* the same for inputs already split into trees (any tree lists, any endings) *)
Theorem C20_cli_is_pipeline_parsed : forall o files stdin,
  ok_of (run_parsed o files stdin) = run_spec o (inputs_of files stdin).
Proof. exact run_parsed_is_pipeline. Qed.
Print Assumptions C20_cli_is_pipeline_parsed.

(* [run_spec] unfolded *)
Theorem C20_cli_ok_iff : forall o files stdin out code,
  run_parsed o files stdin = Ok (out, code) <->
  opts_ok o = true /\ forallb parsed_ok (inputs_of files stdin) = true /\
  exists texts,
    Forall2 (fun t s => pipeline o t = Ok s) (flat_map fst (inputs_of files stdin)) texts /\
    out = render_stream texts /\
    code = existsb (graph_has_errors o) (flat_map fst (inputs_of files stdin)).
Proof. exact run_parsed_ok_iff. Qed.
Print Assumptions C20_cli_ok_iff.

Theorem C20_cli_fails : forall o files stdin,
  (opts_ok o = false \/
   (exists p, In p (inputs_of files stdin) /\ parsed_ok p = false) \/
   (exists t, In t (flat_map fst (inputs_of files stdin)) /\ ok_of (pipeline o t) = None)) ->
  ok_of (run_parsed o files stdin) = None.
Proof. exact run_parsed_fails. Qed.
Print Assumptions C20_cli_fails.

(* [pipeline] differs from the composition as documented only by the command's
   re-interpretation of a reconfigured tree (its result is discarded; an
   exception there ends the run): every result of the command is a result of
   the documented pipeline, and without --reconfigure they are the same function *)
Theorem C20_pipeline_is_documented : forall o t,
  (forall s, pipeline o t = Ok s -> pipeline_doc o t = Ok s) /\
  (given (o_reconfigure o) = None -> pipeline o t = pipeline_doc o t).
Proof. intros o t. split; [exact (pipeline_doc_of_pipeline o t) | exact (pipeline_doc_eq o t)]. Qed.
Print Assumptions C20_pipeline_is_documented.

(* ---- (2) several files = one file with the same graphs (F18) ---- *)
Theorem C20_files_equal_concatenation : forall o files stdin,
  files <> [] -> forallb parsed_ok files = true ->
  ok_of (run_parsed o files stdin) = ok_of (run_parsed o [(flat_map fst files, Ok tt)] stdin).
Proof. exact files_equal_concatenation. Qed.
Print Assumptions C20_files_equal_concatenation.

(* in particular one blank line stands between the last graph of a file and the
   first graph of the next *)
Theorem C20_blank_line_between_files : forall a b, a <> [] -> b <> [] ->
  render_stream (a ++ b) = render_stream a ++ [LF] ++ render_stream b.
Proof. exact render_stream_app. Qed.
Print Assumptions C20_blank_line_between_files.

(* ---- (3) the exit status ---- *)
Theorem C20_exit_status : forall o files stdin out code,
  run_parsed o files stdin = Ok (out, code) ->
  (code = true <->
   o_check o = true /\
   exists t g, In t (flat_map fst (inputs_of files stdin)) /\
               process_in o t = Ok g /\ errors (o_model o) g <> []).
Proof. exact exit_status. Qed.
Print Assumptions C20_exit_status.

(* ---- (4) formatting options never change content ---- *)
(* for a fixed tree the formatted TREE does not depend on --indent / --compact,
   and when it is well formed (C01) the token stream of the output is its token
   stream under every setting of the two options *)
Theorem C20_formatting_preserves_tokens : forall o i c t t',
  o_triples o = false -> pre_format o t = Ok t' -> wf_tree t' = true ->
  pipeline o t = Ok (format (o_indent o) (o_compact o) t') /\
  pipeline (with_format o i c) t = Ok (format i c t') /\
  map tok_tt (lex_str PENMAN_ALTS (format (o_indent o) (o_compact o) t')) = tokens_of t' /\
  map tok_tt (lex_str PENMAN_ALTS (format i c t')) = tokens_of t'.
Proof. exact formatting_preserves_tokens. Qed.
Print Assumptions C20_formatting_preserves_tokens.

(* ... nor the error report, hence the exit status *)
Theorem C20_formatting_preserves_status : forall o i c t,
  graph_has_errors (with_format o i c) t = graph_has_errors o t.
Proof. exact graph_has_errors_with_format. Qed.
Print Assumptions C20_formatting_preserves_status.

(* ---- (5) normal form ---- *)
(* with no normalisation option a well-formed layout is reproduced (C02); the
   only change is that an empty concept slot is not written *)
Theorem C20_plain_is_identity_on_layout : forall o t, plain o = true ->
  wf_layout_tree (o_model o) t = true ->
  pipeline o t = Ok (format (o_indent o) (o_compact o) (drop_empty_concepts t)).
Proof. exact plain_is_identity_on_layout. Qed.
Print Assumptions C20_plain_is_identity_on_layout.

(* what the command writes for well-formed trees parses back to exactly those
   trees, and the parser ends normally (C01 + C09 with the final line feed) *)
Theorem C20_second_pass_reads_back : forall indent compact ts,
  Forall (fun t => wf_tree t = true) ts ->
  iterparse_str (render_stream (map (format indent compact) ts)) = (ts, Ok tt).
Proof. exact iterparse_render_stream. Qed.
Print Assumptions C20_second_pass_reads_back.

(* for EVERY option set without --triples, idempotence on a stream follows from
   the per-tree fixed point on the formatted trees *)
Theorem C20_idempotence_reduces_to_trees : forall o s out code ts',
  o_triples o = false ->
  run o [] s = Ok (out, code) ->
  Forall2 (fun t t' => pre_format o t = Ok t') (fst (iterparse_str s)) ts' ->
  Forall (fun t' => wf_tree t' = true) ts' ->
  (forall t', In t' ts' -> pipeline o t' = Ok (format (o_indent o) (o_compact o) t')) ->
  exists code', run o [] out = Ok (out, code').
Proof. exact idempotence_reduces_to_trees. Qed.
Print Assumptions C20_idempotence_reduces_to_trees.

(* no normalisation option: the second pass reproduces the first byte for byte *)
Theorem C20_plain_idempotent : forall o s out code, plain o = true ->
  Forall (fun t => wf_tree t = true /\ wf_layout_tree (o_model o) t = true) (fst (iterparse_str s)) ->
  run o [] s = Ok (out, code) -> run o [] out = Ok (out, code).
Proof. exact plain_idempotent. Qed.
Print Assumptions C20_plain_idempotent.

(* a tree that canonicalisation leaves alone stays so when an empty concept
   slot is dropped: the tree stage commutes with the normal form of C02 *)
Theorem C20_canon_commutes_with_normal_form : forall m n,
  canon_node m n = Some n -> canon_node m (dec_node n) = Some (dec_node n).
Proof. exact canon_dec. Qed.
Print Assumptions C20_canon_commutes_with_normal_form.

(* --canonicalize-roles alone (or no normalisation option), any formatting:
   the second pass reproduces the first byte for byte.  [canon_of o t] is the
   canonicalised tree (t itself when the option is off). *)
Theorem C20_canon_idempotent : forall o s out code, plain_rest o = true ->
  (o_canonicalize_roles o = true ->
   norm_closed_b (o_model o) = true /\ has_exact (o_model o) (SLASHS ++ OF) = false) ->
  Forall (fun t => exists t1, canon_of o t = Some t1 /\ wf_tree t1 = true /\
                              wf_layout_tree (o_model o) t1 = true) (fst (iterparse_str s)) ->
  run o [] s = Ok (out, code) -> run o [] out = Ok (out, code).
Proof. exact canon_idempotent. Qed.
Print Assumptions C20_canon_idempotent.

(* ---- non-vacuity ---- *)
(* a real run of the tool (two FILE arguments, --check, --rearrange
   attributes-first,alphanumeric, --make-variables x{i}): text and status
   recorded from /repo; same bytes for the one-file concatenation; a key the
   option does not accept fails the run *)
Example C20_run_nonvacuous :
  run ex_opts [ex_file1; ex_file2] [] = Ok (ex_out, true) /\
  opts_ok ex_opts = true /\
  length (flat_map fst (map iterparse_str [ex_file1; ex_file2])) = 2 /\
  run ex_opts [ex_file1 ++ ex_file2] [] = Ok (ex_out, true) /\
  ok_of (run (mkOpts default_model false false false false false (Some [UAlphanumeric]) None None
                     (Some (-1)%Z) false false false []) [ex_file1] []) = None.
Proof. exact run_nonvacuous. Qed.

Example C20_formatting_nonvacuous :
  let o := mkOpts default_model true false false true false None (Some [UCanonical]) (Some [Prefix; Jdx])
                  (Some (-1)%Z) false false false [] in
  match fst (iterparse_str ex_file1) with
  | [t] => exists t', pre_format o t = Ok t' /\ wf_tree t' = true /\
                      length (tokens_of t') = 23 /\
                      format None true t' <> format (Some 3%Z) false t'
  | _ => False
  end.
Proof. exact formatting_nonvacuous. Qed.

Example C20_plain_nonvacuous :
  plain ex_plain = true /\
  forallb (fun t => wf_tree t && wf_layout_tree (o_model ex_plain) t) (fst (iterparse_str ex_stream)) = true /\
  length (fst (iterparse_str ex_stream)) = 2 /\
  run ex_plain [] ex_stream = Ok (ex_stream_out, false) /\
  run ex_plain [] ex_stream_out = Ok (ex_stream_out, false) /\
  ex_stream <> ex_stream_out.
Proof. exact plain_nonvacuous. Qed.

Example C20_canon_nonvacuous :
  plain_rest ex_canon = true /\ o_canonicalize_roles ex_canon = true /\
  norm_closed_b (o_model ex_canon) = true /\ has_exact (o_model ex_canon) (SLASHS ++ OF) = false /\
  forallb (fun t => match canon_of ex_canon t with
                    | Some t1 => wf_tree t1 && wf_layout_tree (o_model ex_canon) t1
                    | None => false
                    end) (fst (iterparse_str ex_canon_in)) = true /\
  length (fst (iterparse_str ex_canon_in)) = 2 /\
  run ex_canon [] ex_canon_in = Ok (ex_canon_out, false) /\
  run ex_canon [] ex_canon_out = Ok (ex_canon_out, false) /\
  ok_of (run ex_plain [] ex_canon_in) <> Some (ex_canon_out, false).
Proof. exact canon_nonvacuous. Qed.
