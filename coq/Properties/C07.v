(** C07 -- the parser accepts exactly the documented language and fails cleanly.
    ONLY statements here; proofs live in Proofs/Parse_lemmas.v.

    Setting: token lists (what the lexer produces is C08's business).
    [derives_node pre n] (Spec/Grammar.v) is the documented PEG over token TYPES
    with the three robustness extensions; [viable ts] = ts is a prefix of some
    derivable sequence; [recognise] is an independent one-pass pushdown
    recogniser (explicit stack, no fuel), the oracle of harness/c07.py.
    The parser model [parse_node] is used with the model's own fuel
    [parse_fuel ts = S (length ts)]; no conclusion mentions OutOfFuel. *)
From Coq Require Import Lia.
From PM Require Import Impl.Parse Spec.Grammar Proofs.Parse_lemmas.

(* ---- acceptance = the grammar ------------------------------------------------ *)

(* what the parser accepts is a derivable node, and it consumed exactly its tokens *)
Theorem C07_parse_sound : forall ts n it',
  parse_node (parse_fuel ts) (iter_of ts) = Ok (n, it') ->
  exists pre, ts = pre ++ it_rest it' /\ derives_node pre n.
Proof. exact c07_parse_sound. Qed.
Print Assumptions C07_parse_sound.

(* every derivable node is accepted, whatever follows it (no LL(1) side condition is
   needed: a node ends at its RPAREN), with the model's own fuel; the iterator is left
   exactly after the node, remembering the closing token *)
Theorem C07_parse_complete : forall pre n rest,
  derives_node pre n ->
  parse_node (parse_fuel (pre ++ rest)) (iter_of (pre ++ rest)) = Ok (n, mkIter rest (last_opt pre)).
Proof. exact c07_parse_complete. Qed.
Print Assumptions C07_parse_complete.

(* the split and the tree are unique: the grammar is prefix-deterministic *)
Theorem C07_grammar_deterministic : forall pre1 n1 rest1 pre2 n2 rest2,
  derives_node pre1 n1 -> derives_node pre2 n2 -> pre1 ++ rest1 = pre2 ++ rest2 ->
  pre1 = pre2 /\ n1 = n2 /\ rest1 = rest2.
Proof. exact derives_node_deterministic. Qed.
Print Assumptions C07_grammar_deterministic.

(* the hypotheses are satisfiable on a non-trivial input (Parse_lemmas.ex_toks):
   ( a / b~1 :r ( ) :s~2 dquote x dquote :t )   with extensions 1 and 3 and both alignments *)
Example C07_example_derivable : derives_node ex_toks ex_node /\
  parse_node (parse_fuel (ex_toks ++ ex_toks)) (iter_of (ex_toks ++ ex_toks))
    = Ok (ex_node, mkIter ex_toks (last_opt ex_toks)).
Proof. exact c07_example_derivable. Qed.

(* ---- cleanliness: only a result or DecodeError, and termination ---------------- *)

(* for ALL token lists and iterator states, with the fuel the model itself uses *)
Theorem C07_clean_tokens : forall ts l,
  good (parse_node (parse_fuel ts) (mkIter ts l)) /\
  good (parse_tree (mkIter ts l)) /\
  (forall acc, good (snd (iterparse_toks (S (length ts)) (mkIter ts l) acc))) /\
  (forall sc acc, good (parse_triples_loop (S (length ts)) (mkIter ts l) sc acc)).
Proof. exact c07_clean_tokens. Qed.
Print Assumptions C07_clean_tokens.

(* for ALL strings: parse, iterparse, parse_triples end in Ok or DecodeErr -- never
   StopIteration / KeyError / ... ([Other _]), never OutOfFuel *)
Theorem C07_clean : forall s,
  (exists t, parse s = Ok t) \/ (exists l o, parse s = DecodeErr l o).
Proof. exact c07_clean. Qed.
Print Assumptions C07_clean.

Theorem C07_clean_iterparse : forall s,
  snd (iterparse_str s) = Ok tt \/ (exists l o, snd (iterparse_str s) = DecodeErr l o).
Proof. exact c07_clean_iterparse. Qed.
Print Assumptions C07_clean_iterparse.

Theorem C07_clean_iterparse_lines : forall ls,
  snd (iterparse_lines ls) = Ok tt \/ (exists l o, snd (iterparse_lines ls) = DecodeErr l o).
Proof. exact c07_clean_iterparse_lines. Qed.
Print Assumptions C07_clean_iterparse_lines.

Theorem C07_clean_triples : forall s,
  (exists ts, parse_triples s = Ok ts) \/ (exists l o, parse_triples s = DecodeErr l o).
Proof. exact c07_clean_triples. Qed.
Print Assumptions C07_clean_triples.

(* ---- where the error is reported ---------------------------------------------- *)

(* the reported (line, offset) is that of the FIRST token at which no derivation can
   continue (everything before it is a viable prefix, with it no longer), or -- when
   the whole input is a viable prefix, i.e. input ran out -- the END of the last token,
   (0,0) for no tokens at all *)
Theorem C07_error_position : forall ts lo off,
  parse_node (parse_fuel ts) (iter_of ts) = DecodeErr lo off ->
  (exists pre t post, ts = pre ++ t :: post /\ viable pre /\ ~ viable (pre ++ [t]) /\
                      (lo, off) = (tline t, toff t))
  \/ (viable ts /\ (lo, off) = end_pos ts).
Proof. exact parse_error_position. Qed.
Print Assumptions C07_error_position.

(* the same for a whole tree (leading comments, then the node), which is what
   parse() and every round of iterparse() run *)
Theorem C07_tree_error_position : forall ts l lo off,
  ts <> [] \/ l = None ->
  parse_tree (mkIter ts l) = DecodeErr lo off ->
  (exists pre t post, ts = pre ++ t :: post /\ viable_tree pre /\ ~ viable_tree (pre ++ [t]) /\
                      (lo, off) = (tline t, toff t))
  \/ (viable_tree ts /\ (lo, off) = end_pos ts).
Proof. exact parse_tree_error_position. Qed.
Print Assumptions C07_tree_error_position.

(* viability is prefix-closed, so the offending token above is unique *)
Theorem C07_viable_prefix_closed : forall a b, viable (a ++ b) -> viable a.
Proof. exact viable_prefix. Qed.
Print Assumptions C07_viable_prefix_closed.

Example C07_example_error_position :
  (* ( a / / )  fails at the second slash, line 1 offset 5 *)
  parse_node (parse_fuel [mkToken LPAREN [40] 1 0; mkToken SYMBOL [97] 1 1; mkToken SLASH [47] 1 3;
                          mkToken SLASH [47] 1 5; mkToken RPAREN [41] 1 7]%N)
             (iter_of [mkToken LPAREN [40] 1 0; mkToken SYMBOL [97] 1 1; mkToken SLASH [47] 1 3;
                       mkToken SLASH [47] 1 5; mkToken RPAREN [41] 1 7]%N) = DecodeErr 1 5
  /\ (* ( a :r  runs out: end of the last token, offset 3 + 2 *)
  parse_node (parse_fuel [mkToken LPAREN [40] 1 0; mkToken SYMBOL [97] 1 1; mkToken ROLE [58;114] 1 3]%N)
             (iter_of [mkToken LPAREN [40] 1 0; mkToken SYMBOL [97] 1 1; mkToken ROLE [58;114] 1 3]%N)
    = DecodeErr 1 5.
Proof. split; vm_compute; reflexivity. Qed.

(* ---- the independent recogniser (the harness oracle) -------------------------- *)

(* parser and recogniser agree on ALL token lists: acceptance, tree, unread tokens,
   and the error position, as ONE equation *)
Theorem C07_recognise_agrees : forall ts,
  parse_node (parse_fuel ts) (iter_of ts) = rres_outcome (recognise_full ts).
Proof. exact parse_node_recognise. Qed.
Print Assumptions C07_recognise_agrees.

Theorem C07_recognise_agrees_accept : forall ts n rest,
  recognise ts = Some (n, rest) <->
  exists last, parse_node (parse_fuel ts) (iter_of ts) = Ok (n, mkIter rest last).
Proof. exact c07_recognise_agrees_accept. Qed.
Print Assumptions C07_recognise_agrees_accept.

(* ... and for whole trees (comments skipped by the recogniser) *)
Theorem C07_recognise_tree_agrees : forall ts,
  tree_node_outcome (parse_tree (iter_of ts)) = rres_outcome (recognise_tree ts).
Proof. exact c07_recognise_tree_agrees. Qed.
Print Assumptions C07_recognise_tree_agrees.

(* ... and for iterparse: the trees it yields and the error that ends it are those of
   the recogniser applied repeatedly (seq_agree: Ok <-> no error position,
   DecodeErr l o <-> that position; no other outcome) *)
Theorem C07_recognise_iterparse_agrees : forall ts,
  map troot (fst (iterparse_toks (S (length ts)) (iter_of ts) [])) = fst (recognise_all ts) /\
  seq_agree (snd (iterparse_toks (S (length ts)) (iter_of ts) [])) (snd (recognise_all ts)).
Proof. exact c07_iterparse_recognise. Qed.
Print Assumptions C07_recognise_iterparse_agrees.

(* the recogniser decides the grammar *)
Theorem C07_recognise_correct : forall ts n rest,
  recognise ts = Some (n, rest) <-> exists pre, ts = pre ++ rest /\ derives_node pre n.
Proof. exact c07_recognise_correct. Qed.
Print Assumptions C07_recognise_correct.

(* a recogniser failure AT a token pins the first non-viable prefix *)
Theorem C07_recognise_fail_viable : forall ts r, recognise_full ts = RFail r ->
  exists pre t post, ts = pre ++ t :: post /\ r = t :: post /\ viable pre /\ ~ viable (pre ++ [t]).
Proof. exact recognise_fail_viable. Qed.
Print Assumptions C07_recognise_fail_viable.

(* ---- the triple conjunction: the missing comma is an error (F10, repaired) ----- *)
Example C07_triples_missing_comma_rejected :
  (* role(a b) *)
  parse_triples [114;111;108;101;40;97;32;98;41]%N = DecodeErr 1 7.
Proof. vm_compute. reflexivity. Qed.
