(** C12b -- the serialisation clause of C12: a transformation returns a graph
    that encodes without error and decodes to itself.  ONLY statements here;
    proofs live in Proofs/Serialise_lemmas.v, which composes the graph-level
    theorems of Properties/C12.v (node_graph, connectivity and top are kept)
    with the end-to-end theorem [E2E_C03x_decode_encode] of Properties/E2E_aln.v.

    Two vocabularies meet: Spec/WfGraph.v ([node_graph], [connectedP]; used by
    C12.v) and Spec/GraphEq.v (the record [wf_graph m g], [connected g top];
    used by the end-to-end theorems).  Both define [wf_graph] / [connected];
    the GraphEq ones are written qualified below.

    Conclusion shape (that of [E2E_C03x_decode_encode] with the graph's own
    top): [encode_top m i c g' None] succeeds with a text [s], [decode m s]
    succeeds with a graph [g''], [graph_eq m g'' (textual g')] (same top, same
    variables, same triples up to one deinversion, numbers read back as their
    text) and, when no edge is stated in both directions, the alignments come
    back ([alignments_kept]).

    Hypotheses used beyond those of the end-to-end theorem
    (Proofs/Serialise_lemmas.v, all boolean, all evaluated on examples below):
    [epidata_printable g]   [epis_printable] for EVERY entry of the epidata dict
                            (the end-to-end theorem asks it only of the entries
                            reached through a triple: [alns_printable]; on a
                            decoded graph the keys are the triples);
    [nums_plain g]          the text of a numeric target does not start with an
                            underscore (so it is none of the generated variables
                            _ , _2 , ...; Python never prints a number so);
    [table_inst_free m]     (C12.v) no role of the reification table is :instance;
    [table_reify_ok m]      every row: the concept is a constant text, source and
                            target role are written roles (colon + name
                            characters), invertible under the model, distinct;
    [table_dereify_ok m]    every row: the role is a written role, invertible;
    [top_role_ok m]         the top role is a written role, invertible, not
                            :instance.
    The live AMR table satisfies all four table conditions (example below).

    Which transformation needs what:
      reify_edges        table_inst_free, table_reify_ok, epidata_printable,
                         nums_plain: NOTHING about the result is assumed;
      reify_attributes   epidata_printable, nums_plain: nothing about the result;
      indicate_branches  top_role_ok, epidata_printable; pairwise distinctness of
                         the RESULT is a hypothesis (two Push markers naming the
                         same node, or a top-role triple already present, give
                         the same top-role triple twice: example below);
      dereify_edges      table_inst_free, table_dereify_ok; of the RESULT:
                         pairwise distinctness (the dereified triple may already
                         be there), [pushes_name_variables] (a stale Push on
                         another triple may name the collapsed node) and
                         [alns_printable] (the target alignment of the second
                         relation moves onto the dereified triple, whose target
                         may be None or a number) -- none of the three is kept
                         in general: examples below, the last one with a real
                         change of content (None comes back as the text None). *)
From PM Require Import Spec.WellFormed Spec.GraphEq Impl.Codec Proofs.Configure_content
  Proofs.EndToEnd_lemmas Proofs.EndToEnd_aln.
From PM Require Import Spec.WfGraph Proofs.Transform_lemmas Proofs.Serialise_lemmas.

(* ------------------------------------------------------------------ *)
(** * The generic corollary (what the harness oracle instantiates) *)

Theorem C12b_serialises_if_wf : forall m i c g' tp,
  GraphEq.wf_graph m g' -> graph_top g' = Some tp -> GraphEq.connected g' tp ->
  pushes_name_variables g' -> deinverts m = true ->
  atoms_lexable g' = true -> wf_meta (gmeta g') = true -> alns_printable g' = true ->
  exists s g'', encode_top m i c g' None = Ok s /\ decode m s = Ok g'' /\
    graph_eq m g'' (textual g') /\
    (distinct_edges m g' -> alignments_kept m g' g'').
Proof. exact serialises_if_wf. Qed.
Print Assumptions C12b_serialises_if_wf.

(* the same in the vocabulary of C12.v: what C12_every_program concludes
   ([node_graph], [connectedP]) plus what it does not *)
Theorem C12b_serialises_if_node_graph : forall m i c g',
  node_graph g' -> connectedP g' -> triples g' <> [] ->
  roles_invertible m g' -> NoDup (map tkey (triples g')) ->
  pushes_name_variables g' -> deinverts m = true ->
  atoms_lexable g' = true -> wf_meta (gmeta g') = true -> alns_printable g' = true ->
  exists s g'', encode_top m i c g' None = Ok s /\ decode m s = Ok g'' /\
    graph_eq m g'' (textual g') /\
    (distinct_edges m g' -> alignments_kept m g' g'').
Proof. exact serialises_if_node_graph. Qed.
Print Assumptions C12b_serialises_if_node_graph.

(* the two vocabularies agree *)
Theorem C12b_vocabularies : forall m g tp, graph_top g = Some tp ->
  (connectedP g <-> GraphEq.connected g tp) /\
  (GraphEq.wf_graph m g -> atoms_lexable g = true -> node_graph g) /\
  (node_graph g -> triples g <> [] -> roles_invertible m g -> NoDup (map tkey (triples g)) ->
   GraphEq.wf_graph m g) /\
  (nodup_b triple_eqb (triples g) = true <-> NoDup (map tkey (triples g))).
Proof.
  intros m g tp GT. split; [split; [apply connectedP_connected|apply connected_connectedP]; exact GT|].
  split; [apply wf_node_graph_m|]. split; [apply node_graph_wf|apply nodup_b_NoDup].
Qed.
Print Assumptions C12b_vocabularies.

(* [epidata_printable] is the stronger form of [alns_printable] *)
Theorem C12b_epidata_printable_alns : forall g, epidata_printable g = true -> alns_printable g = true.
Proof. exact epidata_printable_alns. Qed.
Print Assumptions C12b_epidata_printable_alns.

(* ------------------------------------------------------------------ *)
(** * reify_edges and reify_attributes: every hypothesis is discharged *)

Theorem C12b_reify_edges_serialises : forall m i c g g',
  GraphEq.wf_graph m g -> (exists tp, graph_top g = Some tp /\ GraphEq.connected g tp) ->
  pushes_name_variables g -> deinverts m = true -> atoms_lexable g = true ->
  wf_meta (gmeta g) = true -> epidata_printable g = true -> nums_plain g = true ->
  table_inst_free m = true -> table_reify_ok m = true ->
  reify_edges m g = Ok g' ->
  exists s g'', encode_top m i c g' None = Ok s /\ decode m s = Ok g'' /\
    graph_eq m g'' (textual g') /\
    (distinct_edges m g' -> alignments_kept m g' g'').
Proof. exact reify_edges_serialises. Qed.
Print Assumptions C12b_reify_edges_serialises.

Theorem C12b_reify_attributes_serialises : forall m i c g g',
  GraphEq.wf_graph m g -> (exists tp, graph_top g = Some tp /\ GraphEq.connected g tp) ->
  pushes_name_variables g -> deinverts m = true -> atoms_lexable g = true ->
  wf_meta (gmeta g) = true -> epidata_printable g = true -> nums_plain g = true ->
  reify_attributes g = Ok g' ->
  exists s g'', encode_top m i c g' None = Ok s /\ decode m s = Ok g'' /\
    graph_eq m g'' (textual g') /\
    (distinct_edges m g' -> alignments_kept m g' g'').
Proof. exact reify_attributes_serialises. Qed.
Print Assumptions C12b_reify_attributes_serialises.

(* in particular the fresh variables keep the triples pairwise distinct and the
   whole bundle of hypotheses [ser_hyps] is an invariant, so the two
   reifications compose: every program made of them, of any length and order,
   runs without error and returns a graph that serialises *)
Theorem C12b_reify_edges_keeps : forall m g g',
  table_inst_free m = true -> table_reify_ok m = true ->
  ser_hyps m g -> reify_edges m g = Ok g' -> ser_hyps m g'.
Proof. exact reify_edges_keeps. Qed.
Print Assumptions C12b_reify_edges_keeps.

Theorem C12b_reify_attributes_keeps : forall m g g',
  ser_hyps m g -> reify_attributes g = Ok g' -> ser_hyps m g'.
Proof. exact reify_attributes_keeps. Qed.
Print Assumptions C12b_reify_attributes_keeps.

Theorem C12b_reify_program_serialises : forall m i c prog g,
  table_inst_free m = true -> table_reify_ok m = true -> deinverts m = true ->
  reify_only prog = true -> ser_hyps m g ->
  exists g', run_xforms m prog g = Ok g' /\ ser_hyps m g' /\
    exists s g'', encode_top m i c g' None = Ok s /\ decode m s = Ok g'' /\
      graph_eq m g'' (textual g') /\
      (distinct_edges m g' -> alignments_kept m g' g'').
Proof.
  intros m i c prog g TI TR Dm RO H.
  destruct (reify_program_keeps m prog g TI TR RO H) as (g' & E & H').
  exists g'. split; [exact E|]. split; [exact H'|]. apply ser_hyps_serialises; assumption.
Qed.
Print Assumptions C12b_reify_program_serialises.

(* the bundle unfolds to the hypotheses listed above and implies the conclusion *)
Theorem C12b_ser_hyps_serialises : forall m i c g, deinverts m = true -> ser_hyps m g ->
  exists s g'', encode_top m i c g None = Ok s /\ decode m s = Ok g'' /\
    graph_eq m g'' (textual g) /\
    (distinct_edges m g -> alignments_kept m g g'').
Proof. exact ser_hyps_serialises. Qed.
Print Assumptions C12b_ser_hyps_serialises.

Theorem C12b_ser_hyps_unfold : forall m g, ser_hyps m g <->
  (GraphEq.wf_graph m g /\ (exists tp, graph_top g = Some tp /\ GraphEq.connected g tp) /\
   pushes_name_variables g /\ atoms_lexable g = true /\ wf_meta (gmeta g) = true /\
   epidata_printable g = true /\ nums_plain g = true).
Proof. intros. reflexivity. Qed.
Print Assumptions C12b_ser_hyps_unfold.

(* ------------------------------------------------------------------ *)
(** * indicate_branches: distinctness of the result is a hypothesis *)

Theorem C12b_indicate_branches_serialises : forall m i c g g',
  GraphEq.wf_graph m g -> (exists tp, graph_top g = Some tp /\ GraphEq.connected g tp) ->
  pushes_name_variables g -> deinverts m = true -> atoms_lexable g = true ->
  wf_meta (gmeta g) = true -> epidata_printable g = true ->
  top_role_ok m = true ->
  indicate_branches m g = Ok g' ->
  NoDup (map tkey (triples g')) ->
  exists s g'', encode_top m i c g' None = Ok s /\ decode m s = Ok g'' /\
    graph_eq m g'' (textual g') /\
    (distinct_edges m g' -> alignments_kept m g' g'').
Proof. exact indicate_branches_serialises. Qed.
Print Assumptions C12b_indicate_branches_serialises.

Theorem C12b_indicate_branches_keeps : forall m g g', top_role_ok m = true ->
  ser_hyps m g -> indicate_branches m g = Ok g' -> NoDup (map tkey (triples g')) -> ser_hyps m g'.
Proof. exact indicate_branches_keeps. Qed.
Print Assumptions C12b_indicate_branches_keeps.

(* ------------------------------------------------------------------ *)
(** * dereify_edges: three hypotheses are about the result *)

(* FULL statement, not proved and FALSE as it stands (see the examples):
     forall m i c g g', ser_hyps m g -> deinverts m = true -> table_inst_free m = true ->
       table_dereify_ok m = true -> dereify_edges m g = Ok g' ->
       exists s g'', encode_top m i c g' None = Ok s /\ decode m s = Ok g'' /\
                     graph_eq m g'' (textual g').
   Proved: the same with distinctness, pushes_name_variables and alns_printable
   of g' as hypotheses; derived from g: non-empty, every variable a Symbol
   owning one instance triple, roles written and invertible, targets lexable,
   connectivity, top, metadata. *)
Theorem C12b_dereify_edges_serialises_partial : forall m i c g g',
  GraphEq.wf_graph m g -> (exists tp, graph_top g = Some tp /\ GraphEq.connected g tp) ->
  deinverts m = true -> atoms_lexable g = true -> wf_meta (gmeta g) = true ->
  table_inst_free m = true -> table_dereify_ok m = true ->
  dereify_edges m g = Ok g' ->
  NoDup (map tkey (triples g')) -> pushes_name_variables g' -> alns_printable g' = true ->
  exists s g'', encode_top m i c g' None = Ok s /\ decode m s = Ok g'' /\
    graph_eq m g'' (textual g') /\
    (distinct_edges m g' -> alignments_kept m g' g'').
Proof. exact dereify_edges_serialises. Qed.
Print Assumptions C12b_dereify_edges_serialises_partial.

Theorem C12b_dereify_edges_keeps_partial : forall m g g',
  table_inst_free m = true -> table_dereify_ok m = true ->
  ser_hyps m g -> dereify_edges m g = Ok g' ->
  NoDup (map tkey (triples g')) -> pushes_name_variables g' -> epidata_printable g' = true ->
  ser_hyps m g'.
Proof. exact dereify_edges_keeps. Qed.
Print Assumptions C12b_dereify_edges_keeps_partial.

(* ------------------------------------------------------------------ *)
(** * The hypotheses are decidable on concrete graphs *)

Theorem C12b_hyps_checkable : forall m g, ser_hyps_b m g = true -> ser_hyps m g.
Proof. exact ser_hyps_b_sound. Qed.
Print Assumptions C12b_hyps_checkable.

(* ------------------------------------------------------------------ *)
(** * Non-vacuity and counterexamples (by computation) *)
From PM Require Import Gen.AmrTable.
Require Import Coq.Strings.String.
Open Scope string_scope.

(* a small AMR-like table with one reification, and the live AMR table *)
Definition c12b_table : mtable :=
  mkTable [] true [] [(s2l ":mod", s2l "have-mod-91", s2l ":ARG1", s2l ":ARG2")] TOPROLE TOPVAR.
Definition c12b_model : model := model_of_table c12b_table.

Example C12b_tables_qualify :
  table_inst_free c12b_model = true /\ table_reify_ok c12b_model = true /\
  table_dereify_ok c12b_model = true /\ top_role_ok c12b_model = true /\ deinverts c12b_model = true /\
  table_inst_free amr_model = true /\ table_reify_ok amr_model = true /\
  table_dereify_ok amr_model = true /\ top_role_ok amr_model = true /\ deinverts amr_model = true.
Proof. vm_compute. repeat split. Qed.

(* (c / chapter :mod 7 :ARG0 (d / dog :quant 2)) with 7 and 2 as NUMBERS *)
Definition c12b_num (s : string) : atom := ANum (s2l s) false.
Definition c12b_chapter : graph :=
  mkGraph [tr "c" ":instance" "chapter"; (sym "c", s2l ":mod", c12b_num "7"); tr "c" ":ARG0" "d";
           tr "d" ":instance" "dog"; (sym "d", s2l ":quant", c12b_num "2")]
          (Some (sym "c"))
          [(tr "c" ":ARG0" "d", [Push (sym "d")]); ((sym "d", s2l ":quant", c12b_num "2"), [Pop])] [].

Example C12b_chapter_hyps : ser_hyps c12b_model c12b_chapter /\ ser_hyps amr_model c12b_chapter.
Proof. split; apply ser_hyps_b_sound; vm_compute; reflexivity. Qed.

(* reify_edges: 5 triples become 7, the result serialises *)
Example C12b_reify_edges_example :
  exists g', reify_edges c12b_model c12b_chapter = Ok g' /\ List.length (triples g') = 7 /\
    exists s g'', encode_top c12b_model (Some 2%Z) false g' None = Ok s /\ decode c12b_model s = Ok g'' /\
      graph_eq c12b_model g'' (textual g').
Proof.
  destruct C12b_chapter_hyps as [(W & T & PV & L & M & EP & NP) _].
  eexists. split; [vm_compute; reflexivity|]. split; [reflexivity|].
  destruct (reify_edges_serialises c12b_model (Some 2%Z) false c12b_chapter _ W T PV eq_refl L M EP NP
              eq_refl eq_refl eq_refl) as (s & g'' & A & B & C & _).
  exists s, g''. auto.
Qed.

(* reify_attributes: 5 triples become 7 (two attributes), the result serialises *)
Example C12b_reify_attributes_example :
  exists g', reify_attributes c12b_chapter = Ok g' /\ List.length (triples g') = 7 /\
    exists s g'', encode_top c12b_model (Some 2%Z) false g' None = Ok s /\ decode c12b_model s = Ok g'' /\
      graph_eq c12b_model g'' (textual g').
Proof.
  destruct C12b_chapter_hyps as [(W & T & PV & L & M & EP & NP) _].
  eexists. split; [vm_compute; reflexivity|]. split; [reflexivity|].
  destruct (reify_attributes_serialises c12b_model (Some 2%Z) false c12b_chapter _ W T PV eq_refl L M EP NP
              eq_refl) as (s & g'' & A & B & C & _).
  exists s, g''. auto.
Qed.

(* a program of five reifications *)
Example C12b_reify_program_example :
  exists g', run_xforms c12b_model [XReifyAttributes; XReifyEdges; XReifyEdges; XReifyAttributes; XReifyEdges]
               c12b_chapter = Ok g' /\ ser_hyps c12b_model g' /\
    exists s g'', encode_top c12b_model None false g' None = Ok s /\ decode c12b_model s = Ok g'' /\
      graph_eq c12b_model g'' (textual g').
Proof.
  destruct C12b_chapter_hyps as [H _].
  destruct (C12b_reify_program_serialises c12b_model None false
              [XReifyAttributes; XReifyEdges; XReifyEdges; XReifyAttributes; XReifyEdges] c12b_chapter
              eq_refl eq_refl eq_refl eq_refl H) as (g' & E & H' & s & g'' & A & B & C & _).
  exists g'. repeat (split; [assumption|]). exists s, g''. auto.
Qed.

(* indicate_branches: one top-role triple is added, the result is distinct and serialises *)
Example C12b_indicate_branches_example :
  exists g', indicate_branches c12b_model c12b_chapter = Ok g' /\ List.length (triples g') = 6 /\
    exists s g'', encode_top c12b_model (Some 2%Z) false g' None = Ok s /\ decode c12b_model s = Ok g'' /\
      graph_eq c12b_model g'' (textual g').
Proof.
  destruct C12b_chapter_hyps as [(W & T & PV & L & M & EP & NP) _].
  eexists. split; [vm_compute; reflexivity|]. split; [reflexivity|].
  destruct (indicate_branches_serialises c12b_model (Some 2%Z) false c12b_chapter _ W T PV eq_refl L M EP
              eq_refl eq_refl) as (s & g'' & A & B & C & _).
  { apply nodup_b_NoDup. vm_compute. reflexivity. }
  exists s, g''. auto.
Qed.

(* dereify_edges after reify_edges: the result-side hypotheses hold and the result serialises *)
Example C12b_dereify_edges_example :
  exists g1 g', reify_edges c12b_model c12b_chapter = Ok g1 /\ dereify_edges c12b_model g1 = Ok g' /\
    List.length (triples g') = 5 /\
    exists s g'', encode_top c12b_model (Some 2%Z) false g' None = Ok s /\ decode c12b_model s = Ok g'' /\
      graph_eq c12b_model g'' (textual g').
Proof.
  destruct C12b_chapter_hyps as [H _].
  eexists. eexists. split; [vm_compute; reflexivity|]. split; [vm_compute; reflexivity|]. split; [reflexivity|].
  match goal with |- context [encode_top _ _ _ ?g None] =>
    assert (H' : ser_hyps c12b_model g) by (apply ser_hyps_b_sound; vm_compute; reflexivity) end.
  destruct (ser_hyps_serialises c12b_model (Some 2%Z) false _ eq_refl H') as (s & g'' & A & B & C & _).
  exists s, g''. auto.
Qed.

(* the command-line order on the example: the result satisfies the bundle *)
Example C12b_cli_order_example :
  exists g', run_xforms c12b_model cli_order c12b_chapter = Ok g' /\ List.length (triples g') = 10 /\
    ser_hyps c12b_model g'.
Proof.
  eexists. split; [vm_compute; reflexivity|]. split; [reflexivity|].
  apply ser_hyps_b_sound. vm_compute. reflexivity.
Qed.

(* ---- what dereify_edges does not keep ---- *)

(* (1) distinctness: the edge written both plainly and reified *)
Definition c12b_dup : graph :=
  mkGraph [tr "a" ":instance" "x"; tr "a" ":mod" "b"; tr "b" ":instance" "y";
           tr "v" ":ARG1" "a"; tr "v" ":instance" "have-mod-91"; tr "v" ":ARG2" "b"]
          (Some (sym "a")) [] [].
Example C12b_dereify_loses_distinctness :
  ser_hyps_b c12b_model c12b_dup = true /\
  exists g', dereify_edges c12b_model c12b_dup = Ok g' /\
    triples g' = [tr "a" ":instance" "x"; tr "a" ":mod" "b"; tr "b" ":instance" "y"; tr "a" ":mod" "b"] /\
    nodup_b triple_eqb (triples g') = false.
Proof. split; [vm_compute; reflexivity|]. eexists. split; [vm_compute; reflexivity|]. split; reflexivity. Qed.

(* (2) Push markers name variables: a stale Push on another triple names the
   collapsed node (the encoder still succeeds: it logs and ignores the marker) *)
Definition c12b_stale : graph :=
  mkGraph [tr "a" ":instance" "x"; tr "a" ":ARG0" "b"; tr "b" ":instance" "y";
           tr "v" ":instance" "have-mod-91"; tr "v" ":ARG1" "a"; tr "v" ":ARG2" "b"]
          (Some (sym "a")) [(tr "a" ":ARG0" "b", [Push (sym "v")])] [].
Example C12b_dereify_loses_push_names :
  ser_hyps_b c12b_model c12b_stale = true /\
  exists g', dereify_edges c12b_model c12b_stale = Ok g' /\
    pushes_b g' = false /\ is_var g' (sym "v") = false /\
    epis_of g' (tr "a" ":ARG0" "b") = [Push (sym "v")] /\
    exists s, encode c12b_model (Some 2%Z) false g' = Ok s.
Proof.
  split; [vm_compute; reflexivity|]. eexists. split; [vm_compute; reflexivity|].
  repeat (split; [reflexivity|]). eexists. vm_compute. reflexivity.
Qed.

(* (3) printable alignments, with a REAL change of content: the alignment of
   (v :ARG1 a) moves onto the dereified triple (a :mod None); the text reads
   :mod None~1 and decodes to the text None instead of a missing target *)
Definition c12b_none : graph :=
  mkGraph [tr "a" ":instance" "x"; tr "v" ":instance" "have-mod-91"; (sym "v", s2l ":ARG2", ANone);
           tr "v" ":ARG1" "a"]
          (Some (sym "a")) [(tr "v" ":ARG1" "a", [Aln [1%N] None])] [].
Example C12b_dereify_moves_alignment_onto_None :
  ser_hyps_b c12b_model c12b_none = true /\
  exists g', dereify_edges c12b_model c12b_none = Ok g' /\
    triples g' = [tr "a" ":instance" "x"; (sym "a", s2l ":mod", ANone)] /\
    epis_of g' (sym "a", s2l ":mod", ANone) = [Aln [1%N] None] /\
    alns_printable g' = false /\
    exists s g'', encode c12b_model (Some 2%Z) false g' = Ok s /\
      s = s2l "(a / x
  :mod None~1)" /\
      decode c12b_model s = Ok g'' /\
      triples g'' = [tr "a" ":instance" "x"; tr "a" ":mod" "None"].
Proof.
  split; [vm_compute; reflexivity|]. eexists. split; [vm_compute; reflexivity|].
  repeat (split; [reflexivity|]). eexists. eexists.
  split; [vm_compute; reflexivity|]. split; [reflexivity|]. split; [vm_compute; reflexivity|]. reflexivity.
Qed.

(* ---- what indicate_branches does not keep: distinctness ---- *)
Definition c12b_top : graph :=
  mkGraph [tr "c" ":instance" "x"; tr "c" ":TOP" "d"; tr "c" ":ARG0" "d"; tr "d" ":instance" "y"]
          (Some (sym "c")) [(tr "c" ":ARG0" "d", [Push (sym "d")])] [].
Example C12b_indicate_loses_distinctness :
  ser_hyps_b c12b_model c12b_top = true /\
  exists g', indicate_branches c12b_model c12b_top = Ok g' /\
    triples g' = [tr "c" ":instance" "x"; tr "c" ":TOP" "d"; tr "c" ":TOP" "d"; tr "c" ":ARG0" "d";
                  tr "d" ":instance" "y"] /\
    nodup_b triple_eqb (triples g') = false.
Proof. split; [vm_compute; reflexivity|]. eexists. split; [vm_compute; reflexivity|]. split; reflexivity. Qed.
