(** C02 — decode then encode reproduces the layout that was written.
    ONLY statements here; proofs live in Proofs/Configure_fast.v.

    [wf_layout_tree m t] (Spec/WfLayout.v): variables are non-empty strings defined
    once; "/" only as first branch with an atomic target; other roles start with ":"
    and are not ":instance"; alignment suffixes are in the printer's normal form; a
    branch that interpretation de-inverts has a role whose stripped form is neither
    inverted nor ":instance" and (if atomic) does not point at its own node; the
    denoted triples are pairwise distinct.  Every model [m] (arbitrary role
    predicate, de-inverting or not). *)
From PM Require Import Spec.WfLayout Proofs.Model_lemmas Proofs.Configure_fast.

(* interpreting a well-formed tree and configuring the graph gives the tree back:
   same nesting, branch order, inverted roles, alignments, metadata; the only
   change is that an empty concept slot "(a /)" is not written *)
Theorem C02_configure_interpret : forall m t g,
  wf_layout_tree m t = true -> interpret m t = Ok g ->
  configure m g None = Ok (drop_empty_concepts t).
Proof. exact configure_interpret_wf. Qed.
Print Assumptions C02_configure_interpret.

(* the hypothesis [interpret m t = Ok g] is never the restrictive one *)
Theorem C02_wf_interpret_ok : forall m t,
  wf_layout_tree m t = true -> exists g, interpret m t = Ok g.
Proof. exact wf_interpret_ok. Qed.
Print Assumptions C02_wf_interpret_ok.

(* the intermediate facts, for the reader: what interpret returns ... *)
Theorem C02_interpret_is_entries : forall m vars n ts es,
  interp_node m vars n = Ok (ts, es) ->
  node_ok n = true /\ ts = map fst (entries m vars n) /\ es = entries m vars n.
Proof. exact interp_ok_inv. Qed.
Print Assumptions C02_interpret_is_entries.

(* ... that the single pass of _configure_node consumes exactly the data of a
   subtree, allocates its nodes in depth-first order and leaves the rest of the
   data and the rest of the store untouched (no use of the fallback loop; the fuel
   given by configure suffices) ... *)
Theorem C02_single_pass : forall m vars n,
  wf_node m vars n = true -> nodup_b atom_eqb (tree_vars n) = true ->
  forall f tail pre nm surp,
    (forall v, mem atom_eqb v (tree_vars n) = true -> mem atom_eqb v (map fst pre) = false) ->
    length (seg m (entries m vars n) ++ tail) < f ->
    exists f' surp' nm', length tail < f' /\
      cnode f m (node_var n) (length pre) surp (seg m (entries m vars n) ++ tail)
            (pre ++ [(node_var n, [])]) nm
      = cnode f' m (node_var n) (length pre) surp' tail (pre ++ flat_node (length pre) n) nm'.
Proof. exact Pn_all. Qed.
Print Assumptions C02_single_pass.

(* ... and that the store reads back as the tree, alignments re-attached *)
Theorem C02_build_reads_back : forall m vars n,
  wf_node m vars n = true ->
  forall pre post fuel, length (flat_node (length pre) n) <= fuel ->
    build fuel (pre ++ flat_node (length pre) n ++ post) (length pre) = dec_node n.
Proof. exact Bn_all. Qed.
Print Assumptions C02_build_reads_back.

(* NOT proved: the string-level corollary
     encode m i c (decode m s) = format i c (drop_empty_concepts (parse s))
   which additionally needs C01's parse/format lemmas; it is covered by the
   oracle (text equality for indent in -1, None, 2) only. *)

(* non-vacuity: a tree with a concept-less node, a cycle back to the root through
   an inverted role, an inverted nested edge, an empty concept slot and alignments
   is well-formed under the default model, and the theorem's conclusion computes *)
Example C02_nonvacuous :
  let a := AStr [97]%N in let b := AStr [98]%N in let c := AStr [99]%N in
  let t := mkTree
    (Node a [ (SLASHS, TAtom ANone);
              ([58;82]%N, TNode (Node b [([58;83;45;111;102;126;49]%N, TAtom a)]));           (* :R (b :S-of~1 a) *)
              ([58;81;45;111;102]%N, TNode (Node c [(SLASHS, TAtom (AStr [120;126;101;46;50]%N))])) ])  (* :Q-of (c / x~e.2) *)
    [] in
  wf_layout_tree default_model t = true /\
  (exists g, interpret default_model t = Ok g /\
             configure default_model g None = Ok (drop_empty_concepts t)) /\
  drop_empty_concepts t <> t.
Proof.
  split; [vm_compute; reflexivity|]. split.
  - eexists. split; vm_compute; reflexivity.
  - vm_compute. discriminate.
Qed.
