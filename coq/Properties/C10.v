(** C10 -- relabelling variables is a graph isomorphism.  ONLY statements
    here; proofs live in Proofs/ResetVars_lemmas.v (which also holds the
    declarative vocabulary: all_vars, rename_node, erase_vars / erase_at,
    rename_graph, names_ok, inst_plain, no_collision).

    Model: Impl/ResetVars.v.  [is_alpha] and [lower] (str.isalpha / str.lower
    on one character) are arbitrary functions in every theorem.  The format is
    a list of pieces (literal text, {prefix}, {i}, {j}) produced by [parse_fmt]. *)
From PM Require Import Impl.ResetVars Impl.Interpret Proofs.Errors_lemmas Proofs.ResetVars_lemmas.

(* the format parser never runs out of its fuel (length of the text) *)
Theorem C10_parse_fmt_fuel : forall f s acc, length s <= f ->
  parse_fmt_loop f s acc = parse_fmt_loop (length s) s acc.
Proof. exact parse_fmt_fuel. Qed.
Print Assumptions C10_parse_fmt_fuel.

(* a format that mentions {i} or {j} renders different indices differently *)
Theorem C10_render_injective : forall ps pre i i', uses_index ps = true ->
  render ps pre i = render ps pre i' -> i = i'.
Proof. exact render_injective. Qed.
Print Assumptions C10_render_injective.

(* with {i} or {j} in the format the call returns (fuel |nodes|+1 suffices, no
   ValueError, no KeyError) on every tree whose nodes all carry a variable *)
Theorem C10_terminates : forall is_alpha lower ps t,
  uses_index ps = true -> all_vars (troot t) = true ->
  exists t', reset_variables is_alpha lower ps t = Ok t'.
Proof. exact reset_terminates. Qed.
Print Assumptions C10_terminates.

(* without an index the call either raises ValueError (a candidate repeats,
   F20 repair) or returns -- it never loops; when it returns the names are
   distinct by C10_bijection *)
Theorem C10_no_index_raises_or_unique : forall is_alpha lower ps t,
  uses_index ps = false -> all_vars (troot t) = true ->
  reset_variables is_alpha lower ps t = Other 5 \/
  exists t', reset_variables is_alpha lower ps t = Ok t'.
Proof. exact reset_no_index. Qed.
Print Assumptions C10_no_index_raises_or_unique.

(* the old->new map is a bijection between the variables of the tree's nodes
   and the new names: distinct old variables get distinct new names *)
Theorem C10_bijection : forall is_alpha lower ps t s,
  reset_map is_alpha lower ps t = Ok s ->
  NoDup (map snd s) /\ keys_nodup atom_eqb (dkeys s) /\
  (forall n, In n (nodes_of (troot t)) -> dmem atom_eqb (node_var n) s = true) /\
  (forall k, dmem atom_eqb k s = true ->
     exists n, In n (nodes_of (troot t)) /\ atom_eqb k (node_var n) = true).
Proof. exact reset_map_facts. Qed.
Print Assumptions C10_bijection.

(* the new tree is the old tree with sigma applied at every node variable and at
   every non-concept atomic target whose variable part (before "~") is in the
   domain of sigma, the alignment suffix preserved; metadata untouched *)
Theorem C10_consistent : forall is_alpha lower ps t t',
  reset_variables is_alpha lower ps t = Ok t' ->
  exists s, reset_map is_alpha lower ps t = Ok s /\
            troot t' = rename_node s (troot t) /\ tmeta t' = tmeta t.
Proof. exact reset_consistent. Qed.
Print Assumptions C10_consistent.

(* nothing else changes: with the variable positions of the ORIGINAL blanked in
   both trees they are equal (roles, concepts -- even a concept spelled like a
   variable --, strings, constants, branch structure, metadata) *)
Theorem C10_nothing_else : forall is_alpha lower ps t t',
  reset_variables is_alpha lower ps t = Ok t' ->
  exists s, reset_map is_alpha lower ps t = Ok s /\
            erase_at s (troot t) (troot t') = erase_vars s (troot t) /\ tmeta t' = tmeta t.
Proof. exact reset_nothing_else. Qed.
Print Assumptions C10_nothing_else.

(* interpreting the relabelled tree = renaming the interpretation of the
   original (triples, top, epidata, metadata), provided
   - names_ok: old variables and new names are plain (no "~", no leading quote),
   - no_collision: no constant is spelled like a new name,
   - inst_plain: the concept role is written "/" (on an atomic target) and no
     other branch produces an instance triple (the renaming of a graph cannot
     tell a variable in concept position from a concept),
   - all_vars: every node carries a variable. *)
Theorem C10_iso : forall is_alpha lower m ps t t' s g,
  reset_variables is_alpha lower ps t = Ok t' ->
  reset_map is_alpha lower ps t = Ok s ->
  names_ok s -> all_vars (troot t) = true ->
  inst_plain m (troot t) = true -> no_collision s (troot t) = true ->
  interpret m t = Ok g ->
  interpret m t' = Ok (rename_graph s g).
Proof. exact reset_iso. Qed.
Print Assumptions C10_iso.

(* non-vacuity / pinned behaviour (Latin-1 instance of is_alpha / lower) *)
Example C10_index_format_nonvacuous :
  parse_fmt [123;112;114;101;102;105;120;125;123;106;125]%N = Some fmt_prefix_j /\
  uses_index fmt_prefix_j = true /\ all_vars (troot tree_two_dogs) = true /\
  reset_variables latin1_is_alpha latin1_lower fmt_prefix_j tree_two_dogs = Ok tree_two_dogs_reset.
Proof. exact index_format_nonvacuous. Qed.

Example C10_no_index_collision_raises :
  uses_index fmt_prefix = false /\ all_vars (troot tree_two_dogs) = true /\
  reset_variables latin1_is_alpha latin1_lower fmt_prefix tree_two_dogs = Other 5.
Proof. exact no_index_collision_raises. Qed.

Example C10_iso_nonvacuous : exists s g,
  reset_map latin1_is_alpha latin1_lower fmt_prefix_j tree_two_dogs = Ok s /\
  names_ok s /\ all_vars (troot tree_two_dogs) = true /\
  inst_plain default_model (troot tree_two_dogs) = true /\
  no_collision s (troot tree_two_dogs) = true /\
  interpret default_model tree_two_dogs = Ok g /\ length (triples g) = 5.
Proof. exact iso_nonvacuous. Qed.
