(** C06 -- Layout markers shape the text but never its content; encoding is total.

    ONLY statements here; proofs live in Proofs/Configure_term.v (T1) and
    Proofs/Configure_content.v (T2).  [configure] is the Gallina mirror of
    penman.layout.configure (Impl/Configure.v, differential-tested against
    /repo on every run of the check).  In every theorem the epidata of the
    graph -- the marker list of every triple -- is universally quantified: any
    mix of Push v / POP, in any order, attached to any triple. *)
From PM Require Import Spec.GraphEq Impl.Configure Proofs.Configure_term Proofs.Configure_content
  Proofs.Configure_complete.

(* T1.  For EVERY model, EVERY list of triples (ill-formed, disconnected, ...),
   EVERY epidata and EVERY requested top, configure terminates within its
   fuel and either returns a tree or raises LayoutError (kinds 1..4): no other
   exception (KeyError, IndexError: the [Other] tags of the mirror), no
   fuel exhaustion. *)
Theorem C06_terminates_and_only_layout_error : forall m g top,
  (exists t, configure m g top = Ok t) \/
  configure m g top = LayoutErr 1 \/ configure m g top = LayoutErr 2 \/
  configure m g top = LayoutErr 3 \/ configure m g top = LayoutErr 4.
Proof. exact configure_only_layout_error. Qed.
Print Assumptions C06_terminates_and_only_layout_error.

Theorem C06_fuel_suffices : forall m g top, configure m g top <> OutOfFuel.
Proof. exact configure_no_fuel_error. Qed.
Print Assumptions C06_fuel_suffices.

(* the general fuel lemma of the while loop: any fuel above T*(T+1)+|data|,
   where |data|+|skipped| <= T, is enough (lexicographic measure
   (|data|+|skipped|, |data|)); the loop ends in Ok or LayoutErr 1..3 *)
Theorem C06_loop_fuel : forall f m T data skipped st nm,
  length data + length skipped <= T ->
  T * (T + 1) + length data < f ->
  (exists a, cloop f m data skipped st nm = Ok a) \/
  cloop f m data skipped st nm = LayoutErr 1 \/
  cloop f m data skipped st nm = LayoutErr 2 \/
  cloop f m data skipped st nm = LayoutErr 3.
Proof. exact cloop_fuel. Qed.
Print Assumptions C06_loop_fuel.

(* T2.  Whenever configure succeeds -- whatever Push/POP markers the graph
   carries -- every triple of the graph is expressed by exactly one branch of
   the tree (an instance triple whose concept is None or '' by no branch: the
   node is written [(v)]), as written or inverted, at the node of its source;
   the root is the requested top; no variable owns two nodes (false before the
   F14 repair).  Hypotheses: the graph is not empty, roles carry their colon
   (what the Graph constructor guarantees; without it a role spelled like the
   concept marker makes the real code drop a node, see the final report), and
   the epidata holds layout markers only (alignments change the branch text,
   not the layout; they belong to C02/C04). *)
Theorem C06_places_each_triple_once : forall m g top t,
  configure m g top = Ok t -> triples g <> [] -> roles_have_colon g -> layout_only g ->
  exists tp,
    requested_top g top = Some tp /\ node_var (troot t) = tp /\
    NoDup (map akey (tree_node_vars t)) /\
    exists bss, Forall2 (expressed_as m) (triples g) bss /\
                Permutation (tree_triples t) (concat bss).
Proof. exact configure_places_each_triple_once_spec. Qed.
Print Assumptions C06_places_each_triple_once.

(* T2, read back: deinverting each branch once gives exactly the written
   triples of the graph, each once (deinverting models; roles that invert
   consistently, which C13 gives for canonical roles). *)
Theorem C06_content_independent_of_markers : forall m g top t,
  configure m g top = Ok t -> triples g <> [] -> roles_have_colon g -> layout_only g ->
  deinverts m = true -> roles_invertible m g ->
  Permutation (tree_content m (tree_triples t)) (graph_content m g).
Proof. exact configure_content_deinverted_spec. Qed.
Print Assumptions C06_content_independent_of_markers.

(* T3.  Encoding is total on connected graphs: if every variable is weakly
   connected to the requested top, configure succeeds -- whatever Push/POP
   markers the graph carries, in any order, on any triple -- provided Push
   markers name variables of the graph (N3: a Push naming a constant makes a
   node out of the constant).  Hypotheses on the graph: None is not a
   variable, roles carry their colon and invert consistently. *)
Theorem C06_connected_implies_success : forall m g top tp,
  requested_top g top = Some tp -> connected g tp ->
  variables_named g -> roles_invertible m g -> roles_have_colon g ->
  pushes_name_variables g ->
  exists t, configure m g top = Ok t.
Proof. exact configure_complete. Qed.
Print Assumptions C06_connected_implies_success.

(* ... hence a layout error means that some variable is not connected to the
   requested top; and a requested top that is not a variable is the layout
   error of kind 4. *)
Theorem C06_error_implies_disconnected : forall m g top tp k,
  configure m g top = LayoutErr k -> requested_top g top = Some tp ->
  variables_named g -> roles_invertible m g -> roles_have_colon g -> pushes_name_variables g ->
  ~ connected g tp.
Proof. exact layout_error_implies_disconnected. Qed.
Print Assumptions C06_error_implies_disconnected.

(* The converse.  Whatever configure accepts is connected: if it succeeds, the
   source of every triple is reachable from the requested top (along
   non-instance triples between variables); so a graph with a triple that is
   not connected to the top is rejected -- with the layout error and nothing
   else (T1). *)
Theorem C06_success_implies_connected : forall m g top tp t,
  configure m g top = Ok t -> triples g <> [] -> requested_top g top = Some tp ->
  roles_invertible m g -> roles_have_colon g -> pushes_name_variables g ->
  forall x, In x (triples g) -> reach g tp (tsrc x).
Proof. exact configure_success_implies_connected. Qed.
Print Assumptions C06_success_implies_connected.

Theorem C06_disconnected_implies_error : forall m g top tp,
  triples g <> [] -> requested_top g top = Some tp ->
  roles_invertible m g -> roles_have_colon g -> pushes_name_variables g ->
  (exists x, In x (triples g) /\ ~ reach g tp (tsrc x)) ->
  exists k, configure m g top = LayoutErr k.
Proof. exact disconnected_implies_layout_error. Qed.
Print Assumptions C06_disconnected_implies_error.

Theorem C06_bad_top_is_layout_error : forall m g top tp,
  triples g <> [] -> requested_top g top = Some tp -> is_var g tp = false ->
  configure m g top = LayoutErr 4.
Proof. exact bad_top_is_layout_error. Qed.
Print Assumptions C06_bad_top_is_layout_error.

(* The property, graph-to-tree half, in one statement: for a well-formed
   connected graph carrying ANY layout markers (naming variables), configure
   terminates, succeeds, roots the tree at the requested top, gives every
   variable at most one node, and the branches deinvert to exactly the written
   triples of the graph, each once. *)
Theorem C06_markers_never_change_content : forall m g top tp,
  wf_graph m g -> requested_top g top = Some tp -> connected g tp ->
  layout_only g -> pushes_name_variables g -> deinverts m = true ->
  exists t, configure m g top = Ok t /\
    node_var (troot t) = tp /\
    NoDup (map akey (tree_node_vars t)) /\
    Permutation (tree_content m (tree_triples t)) (graph_content m g).
Proof. exact configure_total_and_faithful. Qed.
Print Assumptions C06_markers_never_change_content.

Require Import Coq.Strings.String.

(* the hypotheses are satisfiable on the F14 witness (stale Push b), which now
   configures to a tree with one node per variable *)
Example C06_hypotheses_satisfiable :
  triples f14_graph <> [] /\ roles_have_colon f14_graph /\ layout_only f14_graph /\
  deinverts default_model = true /\ roles_invertible default_model f14_graph.
Proof. exact f14_graph_hypotheses. Qed.

Example C06_F14_witness_one_node_per_variable :
  exists t, configure default_model f14_graph (Some (sym "b")) = Ok t /\
            tree_node_vars t = [sym "b"; sym "a"] /\
            format (Some (-1)%Z) false t =
            s2l "(b / a
   :-of (a / y
           :op10 k
           :op2 b))".
Proof. exact f14_now_one_node_per_variable. Qed.

Example C06_disconnected_and_bad_top_are_layout_errors :
  configure default_model
    (mkGraph [tr "a" ":instance" "x"; tr "b" ":instance" "y"] None [] []) None = LayoutErr 1 /\
  configure default_model f5_graph (Some (sym "zz")) = LayoutErr 4.
Proof. exact disconnected_is_layout_error. Qed.

Example C06_connected_hypotheses_satisfiable :
  wf_graph default_model f14_graph /\ connected f14_graph (sym "b") /\
  layout_only f14_graph /\ pushes_name_variables f14_graph.
Proof. exact f14_connected_wf. Qed.

(* Scope notes.  (1) [connected] quantifies over [variables g], which contains
   an explicit [gtop g] even when no triple mentions it; the converse is
   therefore stated over the sources of the triples.  (2) The theorems are
   about [configure]; [encode] = format of the configured tree, which is total
   (a structural function), so the only exception of encode is the layout
   error.  (3) Push markers naming a constant (N3) are outside
   [pushes_name_variables]; T1 and T2 still hold for them. *)
